//! E3: table facts for arbitrary element types (children with index vectors, masks over all 21 versions, multiplicities,
//! group modes, creation path from the root), read through the public API of the current tree.
use autosar_data_specification::*;
#[allow(unused_imports)]
use autosar_data_specification::CharacterDataSpec;
use serde_json::{json, Map, Value};
use std::collections::{HashMap, VecDeque};

pub fn all_versions() -> Vec<AutosarVersion> {
    expand_version_mask(u32::MAX)
}
pub fn vbit(v: AutosarVersion) -> usize {
    (v as u32).trailing_zeros() as usize
}
pub fn bits(mask: u32) -> Vec<usize> {
    (0..32).filter(|b| mask & (1u32 << b) != 0 && AutosarVersion::from_val(1u32 << b).is_some()).collect()
}
fn mode_name(m: ContentMode) -> &'static str {
    match m {
        ContentMode::Sequence => "Sequence",
        ContentMode::Choice => "Choice",
        ContentMode::Bag => "Bag",
        ContentMode::Characters => "Characters",
        ContentMode::Mixed => "Mixed",
    }
}
fn mult_name(m: Option<ElementMultiplicity>) -> &'static str {
    match m {
        Some(ElementMultiplicity::ZeroOrOne) => "ZeroOrOne",
        Some(ElementMultiplicity::One) => "One",
        Some(ElementMultiplicity::Any) => "Any",
        None => "None",
    }
}

/// every element type reachable from the root, with the (element name, parent type) through which it was first reached
pub struct Reach {
    pub order: Vec<ElementType>,
    pub via: HashMap<ElementType, (ElementType, ElementName, u32)>,
}

pub fn reach() -> Reach {
    let mut order = vec![ElementType::ROOT];
    let mut via = HashMap::new();
    let mut q = VecDeque::new();
    q.push_back(ElementType::ROOT);
    while let Some(t) = q.pop_front() {
        for (name, ct, mask, _) in t.sub_element_spec_iter() {
            if ct != ElementType::ROOT && !via.contains_key(&ct) {
                via.insert(ct, (t, name, mask));
                order.push(ct);
                q.push_back(ct);
            }
        }
    }
    Reach { order, via }
}

pub fn type_key(t: ElementType) -> String {
    format!("{t:?}").replace("ElementType(", "T").replace(", ", "_").replace(')', "")
}

/// creation path root -> t: [(element name, mask)]; None if some step is impossible
pub fn path_to(r: &Reach, t: ElementType) -> Vec<(ElementName, u32)> {
    let mut p = vec![];
    let mut cur = t;
    while cur != ElementType::ROOT {
        let Some((par, name, mask)) = r.via.get(&cur) else { break };
        p.push((*name, *mask));
        cur = *par;
    }
    p.reverse();
    p
}

pub fn describe(r: &Reach, t: ElementType) -> Value {
    let mut children = vec![];
    for (cname, ct, mask, named_mask) in t.sub_element_spec_iter() {
        let Some((ft, idx)) = t.find_sub_element(cname, mask) else { continue };
        if ft != ct {
            continue;
        }
        children.push(json!({
            "name": cname.to_str(), "idx": idx, "mask": bits(mask), "named": bits(named_mask),
            "mult": mult_name(t.get_sub_element_multiplicity(&idx)), "cmode": mode_name(t.get_sub_element_container_mode(&idx)),
            "ckey": type_key(ct), "cchar": mode_name(ct.content_mode()),
        }));
    }
    let mut pair = vec![];
    for a in &children {
        let ia: Vec<usize> = a["idx"].as_array().unwrap().iter().map(|x| x.as_u64().unwrap() as usize).collect();
        let mut row = vec![];
        for b in &children {
            let ib: Vec<usize> = b["idx"].as_array().unwrap().iter().map(|x| x.as_u64().unwrap() as usize).collect();
            row.push(json!(mode_name(t.find_common_group(&ia, &ib).content_mode())));
        }
        pair.push(Value::Array(row));
    }
    let path = path_to(r, t);
    // versions in which the whole creation path exists
    let mut pmask = u32::MAX;
    for (_, m) in &path {
        pmask &= m;
    }
    // attributes and enumeration values that exist in some but not all versions
    let mut attrs = vec![];
    for (an, spec, req) in t.attribute_spec_iter() {
        let m = t.find_attribute_spec(an).map(|s| s.version).unwrap_or(0);
        let (kind, items): (&str, Vec<Value>) = match spec {
            CharacterDataSpec::Enum { items } => ("Enum", items.iter().filter(|(_, im)| bits(*im).len() < 21).take(3)
                .chain(items.iter().filter(|(_, im)| bits(*im).len() == 21).take(1)).map(|(it, im)| json!({"i": it.to_str(), "mask": bits(*im)})).collect()),
            CharacterDataSpec::Pattern { .. } => ("Pattern", vec![]),
            CharacterDataSpec::String { .. } => ("String", vec![]),
            CharacterDataSpec::UnsignedInteger => ("UInt", vec![]),
            CharacterDataSpec::Float => ("Float", vec![]),
        };
        attrs.push(json!({"name": an.to_str(), "mask": bits(m), "req": req, "kind": kind, "items": items}));
    }
    let cdenum: Vec<Value> = match t.chardata_spec() {
        Some(CharacterDataSpec::Enum { items }) => items.iter().filter(|(_, im)| bits(*im).len() < 21).take(4).map(|(it, im)| json!({"i": it.to_str(), "mask": bits(*im)})).collect(),
        _ => vec![],
    };
    json!({"mode": mode_name(t.content_mode()), "children": children, "pair": pair, "attrs": attrs, "cdenum": cdenum,
           "path": path.iter().map(|(n, _)| json!(n.to_str())).collect::<Vec<_>>(), "pathmask": bits(pmask)})
}

/// `vh types --count N --seed S [--all]`: table facts for a seeded sample of types with at least one child, plus fixed interesting ones
pub fn sample(count: usize, seed: u64, all: bool) -> Value {
    let r = reach();
    let mut cand: Vec<ElementType> = r.order.iter().copied().filter(|t| t.sub_element_spec_iter().next().is_some()).collect();
    let mut out = Map::new();
    // fixed: types with nested choice / sequence groups and version-dependent duplicate names
    let interesting = |t: &ElementType| {
        let kids: Vec<_> = t.sub_element_spec_iter().collect();
        let dup = kids.iter().enumerate().any(|(i, a)| kids.iter().skip(i + 1).any(|b| a.0 == b.0));
        let nested = kids.iter().any(|(n, _, m, _)| t.find_sub_element(*n, *m).map(|(_, idx)| idx.len() > 1).unwrap_or(false));
        dup || nested
    };
    let mut chosen: Vec<ElementType> = vec![];
    if all {
        chosen = cand.clone();
    } else {
        let mut rng = crate::drive::Rng(seed);
        let mut fixed: Vec<ElementType> = cand.iter().copied().filter(interesting).collect();
        // a deterministic spread of the interesting ones
        let step = (fixed.len() / (count / 3).max(1)).max(1);
        fixed = fixed.into_iter().step_by(step).collect();
        chosen.extend(fixed);
        while chosen.len() < count && !cand.is_empty() {
            let i = rng.below(cand.len());
            let t = cand.swap_remove(i);
            if !chosen.contains(&t) {
                chosen.push(t);
            }
        }
    }
    if !all {
        // value types (no sub elements): enumeration texts and enumeration-valued attributes with items that exist in some versions only
        let partial = |items: &[(autosar_data_specification::EnumItem, u32)]| items.iter().any(|(_, m)| bits(*m).len() < 21);
        let valued: Vec<ElementType> = r.order.iter().copied().filter(|t| t.sub_element_spec_iter().next().is_none()).filter(|t| {
            matches!(t.chardata_spec(), Some(CharacterDataSpec::Enum { items }) if partial(items))
                || t.attribute_spec_iter().any(|(_, spec, _)| matches!(spec, CharacterDataSpec::Enum { items } if partial(items)))
        }).collect();
        let step = (valued.len() / (count / 5).max(1)).max(1);
        chosen.extend(valued.into_iter().step_by(step));
    }
    for t in chosen {
        out.insert(type_key(t), describe(&r, t));
    }
    json!({"types": out, "total_types": r.order.len(), "versions": all_versions().iter().map(|v| json!([vbit(*v), v.to_string()])).collect::<Vec<_>>()})
}
