//! C12 supplement: public methods that take index vectors or raw values, called with valid, empty, off-by-one and far
//! out-of-range arguments, and Debug / Ord implementations on live, detached and foreign handles. A panic is data.
use autosar_data::*;
use autosar_data_specification::{expand_version_mask, AutosarVersion as SV, ElementType};
use serde_json::{json, Value};
use std::panic::{catch_unwind, AssertUnwindSafe};

fn guard<F: FnOnce()>(name: &str, arg: String, f: F, out: &mut Vec<Value>, count: &mut usize) {
    *count += 1;
    if let Err(p) = catch_unwind(AssertUnwindSafe(f)) {
        let msg = p.downcast_ref::<String>().cloned().or(p.downcast_ref::<&str>().map(|s| s.to_string())).unwrap_or_default();
        out.push(json!({"fn": name, "arg": arg, "panic": msg}));
    }
}

/// like `guard`, for calls that may not come back: the call runs on its own thread; not returning within 5 s is reported
fn guard_timed<F: FnOnce() + Send + 'static>(name: &str, arg: String, f: F, out: &mut Vec<Value>, count: &mut usize) {
    *count += 1;
    let (tx, rx) = std::sync::mpsc::channel();
    std::thread::spawn(move || {
        let r = catch_unwind(AssertUnwindSafe(f));
        let _ = tx.send(r.err().map(|p| p.downcast_ref::<String>().cloned().or(p.downcast_ref::<&str>().map(|s| s.to_string())).unwrap_or_default()));
    });
    match rx.recv_timeout(std::time::Duration::from_secs(5)) {
        Ok(None) => {}
        Ok(Some(msg)) => out.push(json!({"fn": name, "arg": arg, "panic": msg})),
        Err(_) => out.push(json!({"fn": name, "arg": arg, "panic": "the call did not return within 5 s"})),
    }
}

pub fn run() -> Value {
    let mut panics = vec![];
    let mut n = 0usize;
    let r = crate::types::reach();
    let vecs: Vec<Vec<usize>> = {
        let vals = [0usize, 1, 2, 99];
        let mut v: Vec<Vec<usize>> = vec![vec![]];
        for a in vals {
            v.push(vec![a]);
            for b in vals {
                v.push(vec![a, b]);
                for c in [0usize, 99] {
                    v.push(vec![a, b, c]);
                }
            }
        }
        v
    };
    let types: Vec<ElementType> = r.order.iter().copied().step_by(97).take(60).chain([ElementType::ROOT]).collect();
    for t in &types {
        for v in &vecs {
            guard("ElementType::get_sub_element_version_mask", format!("{v:?}"), || { let _ = t.get_sub_element_version_mask(v); }, &mut panics, &mut n);
            guard("ElementType::get_sub_element_multiplicity", format!("{v:?}"), || { let _ = t.get_sub_element_multiplicity(v); }, &mut panics, &mut n);
            guard("ElementType::get_sub_element_container_mode", format!("{v:?}"), || { let _ = t.get_sub_element_container_mode(v); }, &mut panics, &mut n);
            for w in vecs.iter().step_by(7) {
                guard("ElementType::find_common_group", format!("{v:?},{w:?}"), || { let _ = t.find_common_group(v, w); }, &mut panics, &mut n);
            }
        }
        guard("ElementType::Debug", String::new(), || { let _ = format!("{t:?}"); }, &mut panics, &mut n);
    }
    for m in [0u32, 1, 3, 0x100000, 0x200000, 0x8000_0000, u32::MAX] {
        guard("expand_version_mask", format!("{m:#x}"), || { let _ = expand_version_mask(m); }, &mut panics, &mut n);
        guard("AutosarVersion::from_val", format!("{m:#x}"), || { let _ = SV::from_val(m); }, &mut panics, &mut n);
    }
    for s in ["", "AUTOSAR_00050.xsd", "AUTOSAR_4-0-1.xsd", "x", "\u{e9}", "AUTOSAR_00050.xsd "] {
        guard("AutosarVersion::from_str", s.to_string(), || { let _ = <SV as std::str::FromStr>::from_str(s); }, &mut panics, &mut n);
    }
    for b in [&b""[..], b"SHORT-NAME", b"short-name", b"\xff\xfe", b"A", &[b'A'; 300][..]] {
        guard("ElementName::from_bytes", format!("{b:?}"), || { let _ = ElementName::from_bytes(b); }, &mut panics, &mut n);
        guard("AttributeName::from_bytes", format!("{b:?}"), || { let _ = AttributeName::from_bytes(b); }, &mut panics, &mut n);
        guard("EnumItem::from_bytes", format!("{b:?}"), || { let _ = EnumItem::from_bytes(b); }, &mut panics, &mut n);
    }
    // handles: live, detached, foreign; Debug and Ord on all combinations
    let m1 = AutosarModel::new();
    let f1 = m1.create_file("a", AutosarVersion::LATEST).unwrap();
    let pk = m1.root_element().create_sub_element(ElementName::ArPackages).unwrap();
    let a = pk.create_named_sub_element(ElementName::ArPackage, "a").unwrap();
    let b = pk.create_named_sub_element(ElementName::ArPackage, "b").unwrap();
    let _ = pk.remove_sub_element(b.clone());
    let m2 = AutosarModel::new();
    let f2 = m2.create_file("b", AutosarVersion::Autosar_4_0_1).unwrap();
    let c = m2.root_element().create_sub_element(ElementName::ArPackages).unwrap();
    m2.remove_file(&f2);
    let hs = [m1.root_element(), pk.clone(), a.clone(), b.clone(), c.clone(), m2.root_element()];
    for x in &hs {
        guard("Element::Debug", x.element_name().to_string(), || { let _ = format!("{x:?}"); }, &mut panics, &mut n);
        guard("Element::xml_path", String::new(), || { let _ = x.xml_path(); }, &mut panics, &mut n);
        guard("Element::serialize", String::new(), || { let _ = x.serialize(); }, &mut panics, &mut n);
        guard("Element::list_valid_sub_elements", String::new(), || { let _ = x.list_valid_sub_elements(); }, &mut panics, &mut n);
        guard("Element::min_version", String::new(), || { let _ = x.min_version(); }, &mut panics, &mut n);
        guard("Element::named_parent", String::new(), || { let _ = x.named_parent(); }, &mut panics, &mut n);
        guard("Element::sort", String::new(), || { x.sort(); }, &mut panics, &mut n);
        for y in &hs {
            guard("Element::cmp", String::new(), || { let _ = x.cmp(y); }, &mut panics, &mut n);
            guard("Element::eq", String::new(), || { let _ = x == y; }, &mut panics, &mut n);
        }
        for p in [0usize, 1, 99, usize::MAX] {
            guard("Element::get_sub_element_at", format!("{p}"), || { let _ = x.get_sub_element_at(p); }, &mut panics, &mut n);
            guard("Element::insert_character_content_item", format!("{p}"), || { let _ = x.insert_character_content_item("t", p); }, &mut panics, &mut n);
            guard("Element::remove_character_content_item", format!("{p}"), || { let _ = x.remove_character_content_item(p); }, &mut panics, &mut n);
            guard("Element::create_sub_element_at", format!("{p}"), || { let _ = x.create_sub_element_at(ElementName::Category, p); }, &mut panics, &mut n);
            guard("Element::elements_dfs_with_max_depth", format!("{p}"), || { let _ = x.elements_dfs_with_max_depth(p).count(); }, &mut panics, &mut n);
        }
    }
    // iterators: polled again after they are exhausted, and while visited elements are being removed
    {
        let m3 = AutosarModel::new();
        let _f3 = m3.create_file("c", AutosarVersion::LATEST).unwrap();
        let pk3 = m3.root_element().create_sub_element(ElementName::ArPackages).unwrap();
        for i in 0..4 {
            let p = pk3.create_named_sub_element(ElementName::ArPackage, &format!("p{i}")).unwrap();
            let _ = p.create_sub_element(ElementName::Category).and_then(|c| c.set_character_data("x"));
            let _ = p.set_attribute_string(AttributeName::Uuid, "u");
        }
        let any = pk3.get_sub_element_at(0).unwrap();
        guard("ElementsIterator::next after None", String::new(), || { let mut it = pk3.sub_elements(); while it.next().is_some() {} let _ = (it.next(), it.next()); }, &mut panics, &mut n);
        guard("ElementContentIterator::next after None", String::new(), || { let mut it = any.content(); while it.next().is_some() {} let _ = (it.next(), it.next()); }, &mut panics, &mut n);
        guard("AttributeIterator::next after None", String::new(), || { let mut it = any.attributes(); while it.next().is_some() {} let _ = (it.next(), it.next()); }, &mut panics, &mut n);
        guard("ElementsDfsIterator::next after None", String::new(), || { let mut it = m3.elements_dfs(); while it.next().is_some() {} let _ = (it.next(), it.next()); }, &mut panics, &mut n);
        guard("IdentifiablesIterator::next after None", String::new(), || { let mut it = m3.identifiable_elements(); while it.next().is_some() {} let _ = (it.next(), it.next()); }, &mut panics, &mut n);
        guard("ArxmlFileIterator::next after None", String::new(), || { let mut it = m3.files(); while it.next().is_some() {} let _ = (it.next(), it.next()); }, &mut panics, &mut n);
        guard("ElementsIterator::next while removing", String::new(), || {
            let mut it = pk3.sub_elements();
            while let Some(e) = it.next() {
                let _ = pk3.remove_sub_element(e);
            }
            let _ = it.next();
        }, &mut panics, &mut n);
        guard("ElementsDfsIterator::next while removing", String::new(), || {
            for i in 0..4 {
                let _ = pk3.create_named_sub_element(ElementName::ArPackage, &format!("q{i}"));
            }
            let mut it = m3.elements_dfs();
            let mut k = 0;
            while let Some((_, e)) = it.next() {
                k += 1;
                if k % 2 == 0 {
                    if let Ok(Some(p)) = e.parent() {
                        let _ = p.remove_sub_element(e);
                    }
                }
            }
            let _ = it.next();
        }, &mut panics, &mut n);
        guard("ElementContentIterator::next while removing", String::new(), || {
            let mut it = m3.root_element().content();
            let _ = it.next();
            let _ = m3.root_element().remove_sub_element(pk3.clone());
            let _ = (it.next(), it.next());
        }, &mut panics, &mut n);
    }
    for f in [&f1, &f2] {
        guard("ArxmlFile::Debug", String::new(), || { let _ = format!("{f:?}"); }, &mut panics, &mut n);
        guard("ArxmlFile::serialize", String::new(), || { let _ = f.serialize(); }, &mut panics, &mut n);
        guard("ArxmlFile::elements_dfs", String::new(), || { let _ = f.elements_dfs().count(); }, &mut panics, &mut n);
        guard("ArxmlFile::set_filename", String::new(), || { let _ = f.set_filename("a"); }, &mut panics, &mut n);
        for v in expand_version_mask(u32::MAX) {
            guard("ArxmlFile::check_version_compatibility", v.to_string(), || { let _ = f.check_version_compatibility(v); }, &mut panics, &mut n);
        }
    }
    for m in [&m1, &m2] {
        guard("AutosarModel::Debug", String::new(), || { let _ = format!("{m:?}"); }, &mut panics, &mut n);
        guard("AutosarModel::serialize_files", String::new(), || { let _ = m.serialize_files(); }, &mut panics, &mut n);
        guard("AutosarModel::duplicate", String::new(), || { let _ = m.duplicate(); }, &mut panics, &mut n);
        guard("AutosarModel::remove_file(foreign)", String::new(), || { m.remove_file(&f1); }, &mut panics, &mut n);
    }
    for cd in [CharacterData::String("x".into()), CharacterData::UnsignedInteger(u64::MAX), CharacterData::Float(f64::NAN), CharacterData::Enum(EnumItem::Abstract)] {
        guard("CharacterData::Display", String::new(), || { let _ = cd.to_string(); }, &mut panics, &mut n);
        guard("CharacterData::parse_integer", String::new(), || { let _ = cd.parse_integer::<i8>(); }, &mut panics, &mut n);
        guard("CharacterData::parse_float", String::new(), || { let _ = cd.parse_float(); }, &mut panics, &mut n);
        guard("CharacterData::cmp", String::new(), || { let _ = cd.partial_cmp(&CharacterData::Float(f64::NAN)); }, &mut panics, &mut n);
    }
    // loading: documents with processing instructions, comments and odd but legal constructs at every structural position
    {
        let hdr = "<?xml version=\"1.0\" encoding=\"utf-8\"?>\n";
        let root = "<AUTOSAR xsi:schemaLocation=\"http://autosar.org/schema/r4.0 AUTOSAR_00050.xsd\" xmlns=\"http://autosar.org/schema/r4.0\" xmlns:xsi=\"http://www.w3.org/2001/XMLSchema-instance\">";
        let pi = "<?xml-stylesheet type=\"text/xsl\" href=\"x.xsl\"?>";
        let docs: Vec<String> = vec![
            format!("{hdr}{pi}\n{root}<AR-PACKAGES/></AUTOSAR>"),
            format!("{hdr}{root}{pi}<AR-PACKAGES>{pi}<AR-PACKAGE><SHORT-NAME>a</SHORT-NAME>{pi}</AR-PACKAGE></AR-PACKAGES></AUTOSAR>{pi}"),
            format!("{pi}{hdr}{root}</AUTOSAR>"),
            format!("{hdr}<?tool?>{root}</AUTOSAR>"),
            format!("{hdr}{root}<AR-PACKAGES><AR-PACKAGE><SHORT-NAME></SHORT-NAME></AR-PACKAGE></AR-PACKAGES></AUTOSAR>"),
            format!("{hdr}<!-- c -->{root}<!-- c --><AR-PACKAGES><!-- c --></AR-PACKAGES><!-- c --></AUTOSAR><!-- c -->"),
            format!("{hdr}{root}<AR-PACKAGES><AR-PACKAGE><SHORT-NAME>a</SHORT-NAME><DESC><L-2 L=\"EN\">t{pi}u<!-- c -->v</L-2></DESC></AR-PACKAGE></AR-PACKAGES></AUTOSAR>"),
        ];
        for (i, d) in docs.into_iter().enumerate() {
            for strict in [true, false] {
                let dd = d.clone();
                guard_timed("AutosarModel::load_buffer", format!("document {i} strict={strict}"), move || { let _ = AutosarModel::new().load_buffer(dd.as_bytes(), "p.arxml", strict); }, &mut panics, &mut n);
            }
            let dd = d.clone();
            guard_timed("check_buffer", format!("document {i}"), move || { let _ = check_buffer(dd.as_bytes()); }, &mut panics, &mut n);
        }
    }
    // the interpretation functions on texts with multi-byte characters at every small offset, empty and prefix-only texts
    for s in ["", "0", "0x", "0X", "0b", "0B", "00", "+", "-", "0x\u{e9}", "5\u{b0}C", "1\u{b5}s", "3\u{20ac}", "0\u{d7}10", "\u{ff11}", "\u{ff11}\u{ff10}", "\u{20ac}5", "\u{e9}", "0\u{e9}", "0b\u{e9}",
              "\u{1f600}", "1e\u{e9}", "t\u{e9}", "0x1\u{e9}", "\u{0}", "1_0", " 1", "1 ", "0x-1", "0b+1", "0+7", "18446744073709551616", "-9223372036854775809", "1e999", "-1e999", "0x10000000000000000"] {
        let cd = CharacterData::String(s.to_string());
        guard("CharacterData::parse_integer(String)", format!("{s:?}"), || { let _ = (cd.parse_integer::<u8>(), cd.parse_integer::<i8>(), cd.parse_integer::<u64>(), cd.parse_integer::<i64>(), cd.parse_integer::<u128>(), cd.parse_integer::<usize>()); }, &mut panics, &mut n);
        guard("CharacterData::parse_float(String)", format!("{s:?}"), || { let _ = cd.parse_float(); }, &mut panics, &mut n);
        guard("CharacterData::parse_bool(String)", format!("{s:?}"), || { let _ = cd.parse_bool(); }, &mut panics, &mut n);
        guard("CharacterData::Display(String)", format!("{s:?}"), || { let _ = cd.to_string(); }, &mut panics, &mut n);
        guard("CharacterData::string_value", format!("{s:?}"), || { let _ = (cd.string_value(), cd.enum_value(), cd.unsigned_integer_value(), cd.float_value()); }, &mut panics, &mut n);
    }
    json!({"calls": n, "panics": panics})
}
