//! E5 (conflicting files): table facts about element types with identifiable children (`vh splitfacts`), and execution of the
//! cases TLC derives from them (`vh splitrun`): two files that both contain the same element of such a type, each with a
//! differently named child, loaded in both orders. Whether the merge is accepted is decided by TLC from the table facts.
use crate::types::{path_to, reach, type_key};
use autosar_data::*;
use autosar_data_specification::{expand_version_mask, ElementMultiplicity, ElementType};
use serde_json::{json, Value};
use std::io::{BufRead, Write};
use std::str::FromStr;

fn bits(m: u32) -> Vec<u32> {
    (0..32).filter(|b| m & (1 << b) != 0).collect()
}

fn version_of_bit(b: u64) -> AutosarVersion {
    expand_version_mask(1u32 << b).first().copied().unwrap_or(AutosarVersion::LATEST)
}

/// facts: for a spread of element types T with a named child C of multiplicity Any: creation path, versions of the path and of C, splittable mask of T
pub fn facts(count: usize) -> Value {
    let r = reach();
    let all: u32 = expand_version_mask(u32::MAX).iter().fold(0u32, |a, v| a | (*v as u32));
    let mut dep = vec![];
    let mut never = vec![];
    let mut always = vec![];
    for t in r.order.iter().copied() {
        if t == ElementType::ROOT {
            continue;
        }
        let Some((cname, cmask)) = t.sub_element_spec_iter().find_map(|(n, ct, m, nm)| {
            let idx = t.find_sub_element(n, m).map(|(_, i)| i)?;
            let many = t.get_sub_element_multiplicity(&idx) == Some(ElementMultiplicity::Any)
                || matches!(t.get_sub_element_container_mode(&idx), autosar_data_specification::ContentMode::Bag);
            (nm & m != 0 && many).then_some((n, m & nm))
        }) else { continue };
        let path = path_to(&r, t);
        let mut pmask = cmask;
        for (_, m) in &path {
            pmask &= m;
        }
        if pmask == 0 || path.is_empty() {
            continue;
        }
        let sp = t.splittable() & all;
        let rec = json!({"ty": type_key(t), "path": path.iter().map(|(n, _)| n.to_str()).collect::<Vec<_>>(), "child": cname.to_str(),
                         "vers": bits(pmask), "split": bits(sp)});
        if sp == 0 { never.push(rec) } else if sp & pmask == pmask { always.push(rec) } else { dep.push(rec) }
    }
    let spread = |v: Vec<Value>, n: usize| -> Vec<Value> { let step = (v.len() / n.max(1)).max(1); v.into_iter().step_by(step).take(n).collect() };
    let (nd, nn, na) = (dep.len(), never.len(), always.len());
    let mut out = spread(dep, count / 2);
    out.extend(spread(never, count / 4));
    out.extend(spread(always, count / 4));
    json!({"facts": out, "version_dependent": nd, "never": nn, "always": na})
}

fn build_doc(path: &[String], child: &str, cname: &str, ver: AutosarVersion) -> Option<String> {
    let model = AutosarModel::new();
    let file = model.create_file("d.arxml", ver).ok()?;
    let mut cur = model.root_element();
    let mut k = 0;
    for step in path {
        let name = ElementName::from_str(step).ok()?;
        let named = cur.element_type().find_sub_element(name, ver as u32).map(|(t, _)| t.is_named_in_version(ver)).unwrap_or(false);
        cur = if named {
            k += 1;
            cur.create_named_sub_element(name, &format!("n{k}")).ok()?
        } else {
            cur.create_sub_element(name).ok()?
        };
    }
    cur.create_named_sub_element(ElementName::from_str(child).ok()?, cname).ok()?;
    file.serialize().ok()
}

fn names_of(model: &AutosarModel, child: &str) -> Vec<String> {
    let cn = ElementName::from_str(child).ok();
    let mut v: Vec<String> = model.elements_dfs().filter(|(_, e)| Some(e.element_name()) == cn).filter_map(|(_, e)| e.item_name()).filter(|n| n == "x" || n == "y").collect();
    v.sort();
    v
}

pub fn run(input: &str, output: &str) -> Value {
    let fin = std::fs::File::open(input).unwrap();
    let mut out = std::io::BufWriter::new(std::fs::File::create(output).unwrap());
    let (mut n, mut unbuildable) = (0, 0);
    for l in std::io::BufReader::new(fin).lines() {
        let l = l.unwrap();
        let Ok(c) = serde_json::from_str::<Value>(&l) else { continue };
        let path: Vec<String> = c["path"].as_array().unwrap().iter().map(|s| s.as_str().unwrap().to_string()).collect();
        let child = c["child"].as_str().unwrap();
        let ver = version_of_bit(c["ver"].as_u64().unwrap());
        let (Some(dx), Some(dy)) = (build_doc(&path, child, "x", ver), build_doc(&path, child, "y", ver)) else {
            unbuildable += 1;
            continue;
        };
        for (first, second, order) in [(&dx, &dy, "xy"), (&dy, &dx, "yx")] {
            let model = AutosarModel::new();
            let l1 = model.load_buffer(first.as_bytes(), "one.arxml", true).is_ok();
            let before = (names_of(&model, child), model.elements_dfs().count(), model.files().count());
            let l2 = match model.load_buffer(second.as_bytes(), "two.arxml", true) {
                Ok(_) => "ok".to_string(),
                Err(e) => format!("{e:?}").split(|ch: char| !ch.is_alphanumeric()).next().unwrap_or("err").to_string(),
            };
            let after = (names_of(&model, child), model.elements_dfs().count(), model.files().count());
            writeln!(out, "{}", json!({"ty": c["ty"], "child": child, "ver": c["ver"], "exp": c["exp"], "order": order, "load1": l1, "load2": l2,
                "names": after.0, "unchanged": before == after})).unwrap();
            n += 1;
        }
    }
    json!({"records": n, "unbuildable": unbuildable})
}
