//! E5: loads the per-file views enumerated by TLC (spec/merge/Merge.tla) in every order and reports the merged model:
//! identifiable paths with the files they are attributed to, duplicates, and the content of every file when its text is
//! re-loaded alone, next to the content of the original view loaded alone.
use autosar_data::*;
use serde_json::{json, Value};
use std::io::{BufRead, Write};

fn canon_list(m: &AutosarModel) -> Vec<String> {
    let mut v: Vec<String> = m.elements_dfs().map(|(_, e)| format!("{}|{}", e.xml_path(), e.character_data().map(|c| c.to_string()).unwrap_or_default())).collect();
    v.sort();
    v
}

fn alone(text: &str) -> Vec<String> {
    let m = AutosarModel::new();
    match m.load_buffer(text.as_bytes(), "x.arxml", false) {
        Ok(_) => canon_list(&m),
        Err(e) => vec![format!("LOADFAILED {e}")],
    }
}

pub fn run(input: &str, output: &str) -> Value {
    let fin = std::fs::File::open(input).unwrap();
    let mut out = std::io::BufWriter::new(std::fs::File::create(output).unwrap());
    let mut n = 0;
    for l in std::io::BufReader::new(fin).lines() {
        let l = l.unwrap();
        let Ok(c) = serde_json::from_str::<Value>(&l) else { continue };
        let views: Vec<String> = c["views"].as_array().unwrap().iter().map(|v| v.as_str().unwrap().to_string()).collect();
        let viewcanon: Vec<Value> = views.iter().map(|v| json!(alone(v))).collect();
        for order in c["orders"].as_array().unwrap() {
            let ord: Vec<usize> = order.as_array().unwrap().iter().map(|x| x.as_u64().unwrap() as usize).collect();
            let model = AutosarModel::new();
            let mut files: Vec<Option<ArxmlFile>> = vec![None; views.len()];
            let mut loads = vec![];
            for f in &ord {
                match model.load_buffer(views[f - 1].as_bytes(), format!("f{f}"), true) {
                    Ok((file, _)) => {
                        files[f - 1] = Some(file);
                        loads.push("ok".to_string());
                    }
                    Err(e) => loads.push(format!("{e:?}").split(|ch: char| !ch.is_alphanumeric()).next().unwrap_or("err").to_string()),
                }
            }
            // identifiable elements by tree walk (not through the index): path -> files
            let mut seen: std::collections::BTreeMap<String, Vec<Vec<usize>>> = Default::default();
            for (_, e) in model.elements_dfs() {
                if e.is_identifiable() {
                    if let Ok(p) = e.path() {
                        let fm: Vec<usize> = e.file_membership().map(|(_, s)| {
                            let mut v: Vec<usize> = s.iter().filter_map(|w| w.upgrade()).filter_map(|f| files.iter().position(|x| x.as_ref() == Some(&f)).map(|p| p + 1)).collect();
                            v.sort();
                            v
                        }).unwrap_or_default();
                        seen.entry(p).or_default().push(fm);
                    }
                }
            }
            let merged: Vec<Value> = seen.iter().map(|(p, fs)| json!({"p": p, "f": fs[0]})).collect();
            let dup: Vec<&String> = seen.iter().filter(|(_, fs)| fs.len() > 1).map(|(p, _)| p).collect();
            let filecanon: Vec<Value> = files.iter().map(|f| match f {
                Some(f) => f.serialize().map(|t| json!(alone(&t))).unwrap_or(json!(["SERIALIZEFAILED"])),
                None => json!(["NOTLOADED"]),
            }).collect();
            writeln!(out, "{}", json!({"id": c["id"], "exp": c["exp"], "order": ord, "loads": loads, "merged": merged, "dup": dup,
                "mergedcanon": canon_list(&model), "filecanon": filecanon, "viewcanon": viewcanon})).unwrap();
            n += 1;
        }
    }
    json!({"records": n})
}
