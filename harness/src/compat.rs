//! E3 / C17: builds a minimal document around one version-dependent item and asks, for every target version, what the
//! compatibility check says, whether the relabelled text loads strictly, and what set_version does.
use crate::core::text_hash;
use crate::doc::proj;
use autosar_data::*;
use autosar_data_specification::{expand_version_mask, CharacterDataSpec};
use serde_json::{json, Value};
use std::io::{BufRead, Write};
use std::str::FromStr;

fn version_of_bit(b: u64) -> AutosarVersion {
    expand_version_mask(1u32 << b).first().copied().unwrap_or(AutosarVersion::LATEST)
}

fn fill_required(e: &Element, ver: AutosarVersion) {
    for (an, spec, req) in e.element_type().attribute_spec_iter() {
        if !req || e.attribute_value(an).is_some() {
            continue;
        }
        let ok = match spec {
            CharacterDataSpec::Enum { items } => items.iter().any(|(it, m)| ver.compatible(*m) && e.set_attribute(an, *it).is_ok()),
            _ => ["x", "1", "2020-01-01", "0.0.0", "/x"].iter().any(|v| e.set_attribute_string(an, v).is_ok()),
        };
        let _ = ok;
    }
}

fn build(tj: &Value, c: &Value) -> Option<(AutosarModel, ArxmlFile)> {
    build_upto(tj, c, None)
}

/// the minimal document of a case; with `upto = Some(d)` only the first d elements of the path (a skeleton without the item)
fn build_upto(tj: &Value, c: &Value, upto: Option<usize>) -> Option<(AutosarModel, ArxmlFile)> {
    let ty = c["ty"].as_str()?;
    let ver = version_of_bit(c["sver"].as_u64()?);
    let tinfo = &tj["types"][ty];
    let model = AutosarModel::new();
    let file = model.create_file("c.arxml", ver).ok()?;
    let mut cur = model.root_element();
    let mut counter = 0;
    let mk = |e: &Element, name: ElementName, counter: &mut usize| -> Option<Element> {
        let named = e.element_type().find_sub_element(name, ver as u32).map(|(t, _)| t.is_named_in_version(ver)).unwrap_or(false);
        let r = if named {
            *counter += 1;
            e.create_named_sub_element(name, &format!("n{counter}"))
        } else {
            e.create_sub_element(name)
        };
        let r = r.ok()?;
        fill_required(&r, ver);
        Some(r)
    };
    for (i, step) in tinfo["path"].as_array()?.iter().enumerate() {
        if upto.is_some_and(|d| i >= d) {
            return Some((model, file));
        }
        let name = ElementName::from_str(step.as_str()?).ok()?;
        cur = mk(&cur, name, &mut counter)?;
    }
    if upto.is_some() {
        return Some((model, file));
    }
    let item = c["item"].as_str()?;
    match c["kind"].as_str()? {
        "child" => {
            let name = ElementName::from_str(item).ok()?;
            mk(&cur, name, &mut counter)?;
        }
        "attr" => {
            let an = AttributeName::from_str(item).ok()?;
            let spec = cur.element_type().find_attribute_spec(an)?;
            let okv = match spec.spec {
                CharacterDataSpec::Enum { items } => items.iter().any(|(it, m)| ver.compatible(*m) && cur.set_attribute(an, *it).is_ok()),
                _ => ["x", "1", "true", "2020-01-01", "0.0.0", "/x"].iter().any(|v| cur.set_attribute_string(an, v).is_ok()),
            };
            if !okv {
                return None;
            }
        }
        "enumattr" => {
            let an = AttributeName::from_str(c["attr"].as_str()?).ok()?;
            cur.set_attribute_string(an, item).ok()?;
        }
        "enumtext" => {
            cur.set_character_data(EnumItem::from_str(item).ok()?).ok()?;
        }
        _ => return None,
    }
    Some((model, file))
}

/// two files merged into one model: the skeleton (first d path elements) as base.arxml, the whole document as ext.arxml
fn build_multi(tj: &Value, c: &Value, d: usize) -> Option<(AutosarModel, ArxmlFile, ArxmlFile, String, String)> {
    // (the models must stay alive while their files are serialized)
    let (_ms, fs) = build_upto(tj, c, Some(d))?;
    let (_mf, ff) = build(tj, c)?;
    let (ts, tf) = (fs.serialize().ok()?, ff.serialize().ok()?);
    let m = AutosarModel::new();
    let (base, _) = m.load_buffer(ts.as_bytes(), "base.arxml", true).map_err(|e| if std::env::var("VH_DEBUG").is_ok() { eprintln!("base: {e}") }).ok()?;
    let (ext, _) = m.load_buffer(tf.as_bytes(), "ext.arxml", true).map_err(|e| if std::env::var("VH_DEBUG").is_ok() { eprintln!("ext: {e}\n{ts}\n{tf}") }).ok()?;
    Some((m, base, ext, ts, tf))
}

fn relabel(text: &str, from: AutosarVersion, to: AutosarVersion) -> String {
    text.replacen(from.filename(), to.filename(), 1)
}

pub fn run(types: &str, input: &str, output: &str) -> Value {
    let tj: Value = serde_json::from_str(&std::fs::read_to_string(types).unwrap()).unwrap();
    let fin = std::fs::File::open(input).unwrap();
    let mut out = std::io::BufWriter::new(std::fs::File::create(output).unwrap());
    let (mut n, mut unbuildable, mut records, mut multi) = (0usize, 0usize, 0usize, 0usize);
    let all: Vec<AutosarVersion> = expand_version_mask(u32::MAX);
    for l in std::io::BufReader::new(fin).lines() {
        let l = l.unwrap();
        let Ok(c) = serde_json::from_str::<Value>(&l) else { continue };
        let Some((model, file)) = build(&tj, &c) else {
            unbuildable += 1;
            continue;
        };
        n += 1;
        let sver = file.version();
        let text = file.serialize().unwrap_or_default();
        let srcok = AutosarModel::new().load_buffer(text.as_bytes(), "s.arxml", true).is_ok();
        let d0 = text_hash(&proj(&model.root_element()).to_string());
        let targets: Vec<AutosarVersion> = match c["tvers"].as_array() {
            Some(a) => a.iter().filter_map(|b| b.as_u64()).map(version_of_bit).collect(),
            None => all.clone(),
        };
        for tv in targets {
            let (errs, mask) = file.check_version_compatibility(tv);
            let rl = relabel(&text, sver, tv);
            let relabel_ok = AutosarModel::new().load_buffer(rl.as_bytes(), "r.arxml", true).is_ok();
            // set_version on a fresh copy of the same document
            let (setver_ok, after_ok, same) = match build(&tj, &c) {
                Some((m2, f2)) => {
                    let r = f2.set_version(tv).is_ok();
                    let same = text_hash(&proj(&m2.root_element()).to_string()) == d0;
                    let after = if r {
                        f2.serialize().ok().map(|t| {
                            let m3 = AutosarModel::new();
                            m3.load_buffer(t.as_bytes(), "a.arxml", true).map(|(f3, _)| f3.version() == tv).unwrap_or(false)
                        }).unwrap_or(false)
                    } else {
                        true
                    };
                    (r, after, same)
                }
                None => (false, true, true),
            };
            writeln!(out, "{}", json!({"ty": c["ty"], "kind": c["kind"], "item": c["item"], "sver": c["sver"], "tver": (tv as u32).trailing_zeros(),
                "srcok": srcok, "nerr": errs.len(), "maskhas": tv.compatible(mask), "relabel_ok": relabel_ok, "setver_ok": setver_ok, "after_ok": after_ok,
                "same": same, "other_ok": true, "exp": c["expmask"]})).unwrap();
            records += 1;
        }
        // a file that does not conform to its own version (loaded leniently under a label in which the item does not exist):
        // set_version to that very version, and to the neighbours, must still go by the check
        {
            let exp: Vec<u64> = c["expmask"].as_array().map(|a| a.iter().filter_map(|b| b.as_u64()).collect()).unwrap_or_default();
            let foreign: Vec<AutosarVersion> = all.iter().copied().filter(|v| !exp.contains(&((*v as u32).trailing_zeros() as u64))).collect();
            for w in foreign.iter().take(2).chain(foreign.iter().rev().take(1)) {
                let rl = relabel(&text, sver, *w);
                let m = AutosarModel::new();
                let Ok((f, _)) = m.load_buffer(rl.as_bytes(), "l.arxml", false) else { continue };
                if f.version() != *w {
                    continue;
                }
                for tv in [*w, sver] {
                    let (errs, mask) = f.check_version_compatibility(tv);
                    let m2 = AutosarModel::new();
                    let Ok((f2, _)) = m2.load_buffer(rl.as_bytes(), "l.arxml", false) else { continue };
                    let r = f2.set_version(tv).is_ok();
                    writeln!(out, "{}", json!({"ty": c["ty"], "kind": format!("{}/lenient", c["kind"].as_str().unwrap_or("")), "item": c["item"], "sver": (*w as u32).trailing_zeros(),
                        "tver": (tv as u32).trailing_zeros(), "srcok": false, "nerr": errs.len(), "maskhas": tv.compatible(mask), "relabel_ok": false, "setver_ok": r,
                        "after_ok": true, "same": true, "other_ok": true, "exp": c["expmask"]})).unwrap();
                    records += 1;
                }
            }
        }
        // the same item in a model of two merged files: the check of a file must be the check of that file's own view.
        // Skeleton depths: just the first AR-PACKAGE (the rest arrives below a non-splittable parent), and everything but the last element
        let path: Vec<String> = tj["types"][c["ty"].as_str().unwrap_or("")]["path"].as_array().map(|a| a.iter().filter_map(|s| s.as_str().map(String::from)).collect()).unwrap_or_default();
        let mut depths = vec![];
        if let Some(i) = path.iter().position(|s| s == "AR-PACKAGE") {
            depths.push(i + 1);
        }
        if path.len() >= 2 && !depths.contains(&(path.len() - 1)) {
            depths.push(path.len() - 1);
        }
        for d in depths {
            if d >= path.len() && c["kind"] != "child" {
                continue;
            }
            let Some((m, base, ext, ts, tf)) = build_multi(&tj, &c, d) else { continue };
            let d0 = text_hash(&proj(&m.root_element()).to_string());
            let targets: Vec<AutosarVersion> = match c["tvers"].as_array() {
                Some(a) => a.iter().filter_map(|b| b.as_u64()).map(version_of_bit).collect(),
                None => all.clone(),
            };
            for (which, file, view) in [("base", &base, &ts), ("ext", &ext, &tf)] {
                // precondition: the file's part of the merged model is its view
                let own = file.serialize().unwrap_or_default();
                let view_ok = {
                    let (a, b) = (AutosarModel::new(), AutosarModel::new());
                    a.load_buffer(own.as_bytes(), "o.arxml", true).is_ok() && b.load_buffer(view.as_bytes(), "v.arxml", true).is_ok()
                        && proj(&a.root_element()) == proj(&b.root_element())
                };
                for tv in &targets {
                    let tv = *tv;
                    let (errs, mask) = file.check_version_compatibility(tv);
                    let rl = relabel(&own, sver, tv);
                    let relabel_ok = AutosarModel::new().load_buffer(rl.as_bytes(), "r.arxml", true).is_ok();
                    // set_version of this file on a fresh copy of the merged model; the other file keeps its version
                    let mut other_ok = true;
                    let (setver_ok, after_ok, same) = match build_multi(&tj, &c, d) {
                        Some((m2, b2, e2, _, _)) => {
                            let (f2, other) = if which == "base" { (b2, e2) } else { (e2, b2) };
                            let r = f2.set_version(tv).is_ok();
                            // the other file of the model is untouched: it is still written with its own version, and reads back as before
                            let before_other = if which == "base" { &tf } else { &ts };
                            other_ok = other.version() == sver && other.serialize().ok().map(|t| {
                                let (a, b) = (AutosarModel::new(), AutosarModel::new());
                                match (a.load_buffer(t.as_bytes(), "o.arxml", false), b.load_buffer(before_other.as_bytes(), "p.arxml", false)) {
                                    (Ok((fa, _)), Ok(_)) => fa.version() == sver && proj(&a.root_element()) == proj(&b.root_element()),
                                    _ => false,
                                }
                            }).unwrap_or(false);
                            let same = text_hash(&proj(&m2.root_element()).to_string()) == d0;
                            let after = if r {
                                f2.serialize().ok().map(|t| {
                                    let m3 = AutosarModel::new();
                                    m3.load_buffer(t.as_bytes(), "a.arxml", true).map(|(f3, _)| f3.version() == tv).unwrap_or(false)
                                }).unwrap_or(false)
                            } else {
                                true
                            };
                            (r, after, same)
                        }
                        None => (false, true, true),
                    };
                    writeln!(out, "{}", json!({"ty": c["ty"], "kind": format!("{}/{}@{}", c["kind"].as_str().unwrap_or(""), which, d), "item": c["item"], "sver": c["sver"],
                        "tver": (tv as u32).trailing_zeros(), "srcok": srcok && view_ok, "nerr": errs.len(), "maskhas": tv.compatible(mask), "relabel_ok": relabel_ok,
                        "setver_ok": setver_ok, "after_ok": after_ok, "same": same, "other_ok": other_ok, "exp": c["expmask"]})).unwrap();
                    records += 1;
                    multi += 1;
                }
            }
        }
    }
    json!({"cases": n, "unbuildable": unbuildable, "records": records, "multi_file_records": multi})
}
