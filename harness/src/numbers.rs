//! E8: numeric interpretation of texts (parse_integer::<W>, parse_float, parse_bool) and format -> parse round trips.
use autosar_data::*;
use serde_json::{json, Value};
use std::io::{BufRead, Write};

fn opt<T: std::fmt::Display>(v: Option<T>) -> Value {
    match v {
        Some(x) => json!([x.to_string().parse::<i64>().unwrap_or(i64::MIN)]),
        None => json!([]),
    }
}

/// the value as (sign, decimal mantissa without trailing zeros, decimal exponent) of its shortest round-trip representation
fn canon(v: Option<f64>) -> Value {
    match v {
        None => json!({"t": "none", "neg": false, "m": 0, "e": 0}),
        Some(f) if f.is_nan() => json!({"t": "nan", "neg": false, "m": 0, "e": 0}),
        Some(f) if f.is_infinite() => json!({"t": "inf", "neg": f < 0.0, "m": 0, "e": 0}),
        Some(f) => {
            let s = format!("{:e}", f.abs());
            let (mant, exp) = s.split_once('e').unwrap_or((&s, "0"));
            let frac = mant.split_once('.').map(|(_, fr)| fr.len()).unwrap_or(0) as i64;
            let digits: String = mant.chars().filter(|c| *c != '.').collect();
            let mut m = digits.parse::<i64>().unwrap_or(-1);
            let mut e = exp.parse::<i64>().unwrap_or(0) - frac;
            if m == 0 {
                e = 0;
            }
            while m > 0 && m % 10 == 0 {
                m /= 10;
                e += 1;
            }
            if !(0..=2_000_000_000).contains(&m) {
                m = -1;
            }
            json!({"t": "num", "neg": f.is_sign_negative(), "m": m, "e": e})
        }
    }
}

/// a string as attribute value and as element text: written to a document, loaded strictly, read back
fn string_round_trip(s: &str) -> bool {
    // a text of blanks only cannot be told from formatting white space and is read as no text (DESIGN 6.1)
    if s.chars().all(|c| c == ' ') {
        return true;
    }
    let model = AutosarModel::new();
    let Ok(file) = model.create_file("s.arxml", AutosarVersion::LATEST) else { return false };
    let mk = || -> Result<(Element, Element), AutosarDataError> {
        let pkg = model.root_element().create_sub_element(ElementName::ArPackages)?.create_named_sub_element(ElementName::ArPackage, "p")?;
        let sdg = pkg.create_sub_element(ElementName::AdminData)?.create_sub_element(ElementName::Sdgs)?.create_sub_element(ElementName::Sdg)?;
        sdg.set_attribute_string(AttributeName::Gid, "g")?;
        let sd = sdg.create_sub_element(ElementName::Sd)?;
        Ok((sdg, sd))
    };
    let Ok((_sdg, sd)) = mk() else { return false };
    // SD: text with preserved white space; its GID attribute is a plain string
    if sd.set_attribute_string(AttributeName::Gid, s).is_err() || sd.set_character_data(s.to_string()).is_err() {
        return false;
    }
    let Ok(text) = file.serialize() else { return false };
    let m2 = AutosarModel::new();
    if m2.load_buffer(text.as_bytes(), "s.arxml", true).is_err() {
        return false;
    }
    let Some(sd2) = m2.elements_dfs().map(|(_, e)| e).find(|e| e.element_name() == ElementName::Sd) else { return false };
    let a = sd2.attribute_value(AttributeName::Gid).and_then(|c| c.string_value());
    let t = sd2.character_data().and_then(|c| c.string_value());
    // in memory, too: formatting and parsing the value itself
    // (leading / trailing blanks of a value whose type does not preserve white space are insignificant: DESIGN 6.1)
    a.as_deref() == Some(s.trim_matches(' ')) && t.as_deref() == Some(s) && sd.character_data().and_then(|c| c.string_value()).as_deref() == Some(s)
}

/// for every reachable element type with an enumeration text or an enumeration-valued attribute: a minimal document in the
/// newest version, every item (that exists in that version) set, the file written and loaded strictly, the value compared
fn enum_documents() -> (usize, usize, Vec<String>) {
    use crate::types::{path_to, reach};
    use autosar_data_specification::CharacterDataSpec;
    use std::str::FromStr;
    let r = reach();
    let ver = AutosarVersion::LATEST;
    let (mut checked, mut types, mut failures) = (0usize, 0usize, vec![]);
    for t in r.order.iter().copied() {
        let text_items: Vec<EnumItem> = match t.chardata_spec() {
            Some(CharacterDataSpec::Enum { items }) => items.iter().filter(|(_, m)| ver.compatible(*m)).map(|(i, _)| *i).collect(),
            _ => vec![],
        };
        let attr_items: Vec<(AttributeName, Vec<EnumItem>)> = t.attribute_spec_iter().filter_map(|(an, spec, _)| match spec {
            CharacterDataSpec::Enum { items } if t.find_attribute_spec(an).is_some_and(|s| ver.compatible(s.version)) =>
                Some((an, items.iter().filter(|(_, m)| ver.compatible(*m)).map(|(i, _)| *i).collect())),
            _ => None,
        }).collect();
        if text_items.is_empty() && attr_items.iter().all(|(_, v)| v.is_empty()) {
            continue;
        }
        // build the creation path once
        let model = AutosarModel::new();
        let Ok(file) = model.create_file("e.arxml", ver) else { continue };
        let mut cur = model.root_element();
        let mut ok = true;
        let mut k = 0;
        for (name, mask) in path_to(&r, t) {
            if !ver.compatible(mask) { ok = false; break; }
            let named = cur.element_type().find_sub_element(name, ver as u32).map(|(ct, _)| ct.is_named_in_version(ver)).unwrap_or(false);
            let nx = if named { k += 1; cur.create_named_sub_element(name, &format!("n{k}")) } else { cur.create_sub_element(name) };
            match nx { Ok(e) => cur = e, Err(_) => { ok = false; break; } }
        }
        if !ok || cur.element_type() != t {
            continue;
        }
        types += 1;
        let mut check = |what: &str, set: &dyn Fn(&Element) -> bool, get: &dyn Fn(&Element) -> Option<EnumItem>, item: EnumItem| {
            if !set(&cur) {
                return; // the editing API refuses the value: not a question of this property
            }
            checked += 1;
            let Ok(text) = file.serialize() else { failures.push(format!("{what} {}: serialize failed", item.to_str())); return };
            let m2 = AutosarModel::new();
            // (lenient: required attributes of the elements on the creation path were never set)
            match m2.load_buffer(text.as_bytes(), "e.arxml", false) {
                Err(e) => { if failures.len() < 8 { failures.push(format!("{} {what} = {}: {e}", cur.element_name().to_str(), item.to_str())); } }
                Ok(_) => {
                    let back = m2.elements_dfs().map(|(_, e)| e).filter(|e| e.element_type() == t).last().and_then(|e| get(&e));
                    if back != Some(item) && failures.len() < 8 {
                        failures.push(format!("{} {what} = {} read back as {:?}", cur.element_name().to_str(), item.to_str(), back.map(|b| b.to_str())));
                    }
                }
            }
        };
        for it in text_items {
            check("text", &|e| e.set_character_data(it).is_ok(), &|e| e.character_data().and_then(|c| c.enum_value()), it);
        }
        for (an, items) in attr_items {
            // at most 40 items per attribute, spread over the list (DEST lists have hundreds of entries per reference type)
            let step = (items.len() / 40).max(1);
            for it in items.into_iter().step_by(step) {
                check(an.to_str(), &|e| e.set_attribute(an, it).is_ok(), &|e| e.attribute_value(an).and_then(|c| c.enum_value()), it);
            }
        }
        let _ = EnumItem::from_str("x");
    }
    (checked, types, failures)
}

pub fn run(input: &str, output: &str) -> Value {
    let fin = std::fs::File::open(input).unwrap();
    let mut out = std::io::BufWriter::new(std::fs::File::create(output).unwrap());
    let mut n = 0;
    for l in std::io::BufReader::new(fin).lines() {
        let l = l.unwrap();
        let Ok(c) = serde_json::from_str::<Value>(&l) else { continue };
        let text = crate::doc::decode(c["text"].as_str().unwrap_or(""));
        let text = String::from_utf8_lossy(&text).to_string();
        let kind = c["kind"].as_str().unwrap_or("int").to_string();
        if kind == "str" {
            writeln!(out, "{}", json!({"kind": "str", "text": c["text"], "inform": false, "finform": false, "exp": c["exp"], "got": {}, "fgot": [], "fexp": c["fexp"],
                "fcanon": c["fexp"], "bexp": [], "bool": [], "panic": false, "same": string_round_trip(&text)})).unwrap();
            n += 1;
            continue;
        }
        let cd = CharacterData::String(text.clone());
        let r = std::panic::catch_unwind(|| {
            let got = json!({
                "i8": opt(cd.parse_integer::<i8>()), "u8": opt(cd.parse_integer::<u8>()), "i16": opt(cd.parse_integer::<i16>()), "u16": opt(cd.parse_integer::<u16>()),
                "i32": opt(cd.parse_integer::<i32>()), "u32": opt(cd.parse_integer::<u32>()), "i64": opt(cd.parse_integer::<i64>()), "u64": opt(cd.parse_integer::<u64>()),
            });
            let pf = cd.parse_float();
            // the float interpretation of an integer text, if it is an integer
            let fgot = match pf {
                Some(f) if f.fract() == 0.0 && f.abs() < 1e15 => json!([f as i64]),
                Some(_) => json!(["nonint"]),
                None => json!([]),
            };
            (got, fgot, canon(pf), cd.parse_bool().map(|b| json!([b.to_string()])).unwrap_or(json!([])))
        });
        let (got, fgot, fcanon, b, panic) = match r {
            Ok((a, b, c, d)) => (a, b, c, d, false),
            Err(_) => (json!({}), json!([]), json!({"t": "none", "neg": false, "m": 0, "e": 0}), json!([]), true),
        };
        writeln!(out, "{}", json!({"kind": kind, "text": c["text"], "inform": c["inform"], "finform": c["finform"], "exp": c["exp"], "got": got, "fgot": fgot,
            "fexp": c["fexp"], "fcanon": fcanon, "bexp": c["bexp"], "bool": b, "panic": panic, "same": true})).unwrap();
        n += 1;
    }
    // format -> parse round trips of typed values through a document
    let model = AutosarModel::new();
    model.create_file("n.arxml", AutosarVersion::LATEST).unwrap();
    let vals_u: [u64; 10] = [0, 1, 9, 10, 255, 65535, 1 << 31, (1 << 32) + 1, 1 << 63, u64::MAX];
    let vals_f: [f64; 14] = [0.0, -0.0, 1.0, -1.5, 0.1, 1e300, 1e-300, f64::MIN_POSITIVE, 5e-324, f64::MAX, f64::INFINITY, f64::NEG_INFINITY, f64::NAN, 123456789.123456789];
    for v in vals_u {
        let cd = CharacterData::UnsignedInteger(v);
        let txt = cd.to_string();
        let back = CharacterData::String(txt.clone()).parse_integer::<u64>();
        writeln!(out, "{}", json!({"kind": "fmt", "text": txt, "inform": true, "finform": false, "exp": {}, "got": {}, "fgot": [], "fexp": {}, "fcanon": {}, "bexp": [], "bool": [], "panic": false, "same": back == Some(v)})).unwrap();
        n += 1;
    }
    for v in vals_f {
        let cd = CharacterData::Float(v);
        let txt = cd.to_string();
        let back = CharacterData::String(txt.clone()).parse_float();
        let same = match back {
            Some(b) => (b.is_nan() && v.is_nan()) || (b == v && b.is_sign_negative() == v.is_sign_negative()),
            None => false,
        };
        writeln!(out, "{}", json!({"kind": "fmt", "text": txt, "inform": true, "finform": false, "exp": {}, "got": {}, "fgot": [], "fexp": {}, "fcanon": {}, "bexp": [], "bool": [], "panic": false, "same": same})).unwrap();
        n += 1;
    }
    // widths beyond 64 bit: the same number in every lexical form gives the same value (or nothing, where it does not fit)
    let wide: [u128; 6] = [1u128 << 64, (1u128 << 64) + 1, (1u128 << 100) + 12345, i128::MAX as u128, (i128::MAX as u128) + 1, u128::MAX];
    for v in wide {
        let forms = [format!("{v}"), format!("0x{v:x}"), format!("0X{v:X}"), format!("0b{v:b}"), format!("0{v:o}")];
        let mut same = true;
        for f in &forms {
            let cd = CharacterData::String(f.clone());
            same &= cd.parse_integer::<u128>() == Some(v);
            same &= cd.parse_integer::<i128>() == i128::try_from(v).ok();
            same &= cd.parse_integer::<u64>().is_none() && cd.parse_integer::<i64>().is_none();
        }
        writeln!(out, "{}", json!({"kind": "fmt", "text": format!("{v} in decimal, hexadecimal, binary and octal form as u128 / i128 / u64 / i64"), "inform": true, "finform": false, "exp": {}, "got": {}, "fgot": [], "fexp": {}, "fcanon": {}, "bexp": [], "bool": [], "panic": false, "same": same})).unwrap();
        n += 1;
    }
    // the boundaries of every width in every form
    let mut edge_ok = true;
    macro_rules! edges { ($($t:ty),*) => { $(
        {
            let max = <$t>::MAX as u128;
            for (v, fits) in [(max, true), (max + 1, false)] {
                if v == 0 { continue; }
                for f in [format!("{v}"), format!("0x{v:x}"), format!("0b{v:b}"), format!("0{v:o}")] {
                    let got = CharacterData::String(f).parse_integer::<$t>();
                    edge_ok &= if fits { got.map(|g| g as u128) == Some(v) } else { got.is_none() };
                }
            }
        }
    )* } }
    edges!(u8, i8, u16, i16, u32, i32, u64, i64, usize, isize);
    writeln!(out, "{}", json!({"kind": "fmt", "text": "MAX and MAX + 1 of every integer width in every lexical form", "inform": true, "finform": false, "exp": {}, "got": {}, "fgot": [], "fexp": {}, "fcanon": {}, "bexp": [], "bool": [], "panic": false, "same": edge_ok})).unwrap();
    n += 1;
    // every enumeration item of every element text and attribute, through a written document and the strict loader
    {
        let (checked, types, failures) = enum_documents();
        writeln!(out, "{}", json!({"kind": "fmt", "text": format!("{checked} enumeration values of {types} element types written to a document and loaded again; failures: {}", failures.join(" | ")),
            "inform": true, "finform": false, "exp": {}, "got": {}, "fgot": [], "fexp": {}, "fcanon": {}, "bexp": [], "bool": [], "panic": false, "same": failures.is_empty() && checked > 1000})).unwrap();
        n += 1;
    }
    // every enumeration item: text -> item -> text
    let mut enum_ok = true;
    let mut enum_n = 0;
    for t in crate::types::reach().order {
        if let Some(autosar_data_specification::CharacterDataSpec::Enum { items }) = t.chardata_spec() {
            for (it, _) in *items {
                enum_n += 1;
                if <EnumItem as std::str::FromStr>::from_str(it.to_str()).ok() != Some(*it) || CharacterData::Enum(*it).to_string() != it.to_str() {
                    enum_ok = false;
                }
            }
        }
    }
    writeln!(out, "{}", json!({"kind": "fmt", "text": format!("{enum_n} enumeration items of element texts"), "inform": true, "finform": false, "exp": {}, "got": {}, "fgot": [], "fexp": {}, "fcanon": {}, "bexp": [], "bool": [], "panic": false, "same": enum_ok})).unwrap();
    json!({"records": n + 1})
}
