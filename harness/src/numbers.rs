//! E8: numeric interpretation of texts (parse_integer::<W>, parse_float, parse_bool) and format -> parse round trips.
use autosar_data::*;
use serde_json::{json, Value};
use std::io::{BufRead, Write};

fn opt<T: std::fmt::Display>(v: Option<T>) -> Value {
    match v {
        Some(x) => json!([x.to_string().parse::<i64>().unwrap_or(i64::MIN)]),
        None => json!([]),
    }
}

pub fn run(input: &str, output: &str) -> Value {
    let fin = std::fs::File::open(input).unwrap();
    let mut out = std::io::BufWriter::new(std::fs::File::create(output).unwrap());
    let mut n = 0;
    for l in std::io::BufReader::new(fin).lines() {
        let l = l.unwrap();
        let Ok(c) = serde_json::from_str::<Value>(&l) else { continue };
        let text = c["text"].as_str().unwrap_or("");
        let cd = CharacterData::String(text.to_string());
        let got = json!({
            "i8": opt(cd.parse_integer::<i8>()), "u8": opt(cd.parse_integer::<u8>()), "i16": opt(cd.parse_integer::<i16>()), "u16": opt(cd.parse_integer::<u16>()),
            "i32": opt(cd.parse_integer::<i32>()), "u32": opt(cd.parse_integer::<u32>()), "i64": opt(cd.parse_integer::<i64>()), "u64": opt(cd.parse_integer::<u64>()),
        });
        // the float interpretation of an integer text, if it is an integer
        let fgot = match cd.parse_float() {
            Some(f) if f.fract() == 0.0 && f.abs() < 1e15 => json!([f as i64]),
            Some(_) => json!(["nonint"]),
            None => json!([]),
        };
        writeln!(out, "{}", json!({"kind": "int", "text": text, "inform": c["inform"], "exp": c["exp"], "got": got, "fgot": fgot,
            "bool": cd.parse_bool().map(|b| b.to_string()).unwrap_or_default(), "same": true})).unwrap();
        n += 1;
    }
    // format -> parse round trips of typed values through a document
    let model = AutosarModel::new();
    model.create_file("n.arxml", AutosarVersion::LATEST).unwrap();
    let vals_u: [u64; 10] = [0, 1, 9, 10, 255, 65535, 1 << 31, (1 << 32) + 1, 1 << 63, u64::MAX];
    let vals_f: [f64; 14] = [0.0, -0.0, 1.0, -1.5, 0.1, 1e300, 1e-300, f64::MIN_POSITIVE, 5e-324, f64::MAX, f64::INFINITY, f64::NEG_INFINITY, f64::NAN, 123456789.123456789];
    for v in vals_u {
        let cd = CharacterData::UnsignedInteger(v);
        let txt = cd.to_string();
        let back = CharacterData::String(txt.clone()).parse_integer::<u64>();
        writeln!(out, "{}", json!({"kind": "fmt", "text": txt, "inform": true, "exp": {}, "got": {}, "fgot": [], "bool": "", "same": back == Some(v)})).unwrap();
        n += 1;
    }
    for v in vals_f {
        let cd = CharacterData::Float(v);
        let txt = cd.to_string();
        let back = CharacterData::String(txt.clone()).parse_float();
        let same = match back {
            Some(b) => (b.is_nan() && v.is_nan()) || (b == v && b.is_sign_negative() == v.is_sign_negative()),
            None => false,
        };
        writeln!(out, "{}", json!({"kind": "fmt", "text": txt, "inform": true, "exp": {}, "got": {}, "fgot": [], "bool": "", "same": same})).unwrap();
        n += 1;
    }
    // every enumeration item: text -> item -> text
    let mut enum_ok = true;
    let mut enum_n = 0;
    for t in crate::types::reach().order {
        if let Some(autosar_data_specification::CharacterDataSpec::Enum { items }) = t.chardata_spec() {
            for (it, _) in *items {
                enum_n += 1;
                if <EnumItem as std::str::FromStr>::from_str(it.to_str()).ok() != Some(*it) || CharacterData::Enum(*it).to_string() != it.to_str() {
                    enum_ok = false;
                }
            }
        }
    }
    writeln!(out, "{}", json!({"kind": "fmt", "text": format!("{enum_n} enumeration items of element texts"), "inform": true, "exp": {}, "got": {}, "fgot": [], "bool": "", "same": enum_ok})).unwrap();
    json!({"records": n + 1})
}
