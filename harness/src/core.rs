//! Concretisation of abstract actions on the real library, and projection of the real state to the observation
//! record `Obs` (DESIGN 4.1).  No property logic here: execute, project, log.
use crate::extract::{self, vname, vparse, Fragment};
use autosar_data::*;
use serde_json::{json, Value};
use std::collections::HashMap;
use std::str::FromStr;
use std::sync::mpsc;
use std::time::Duration;

pub struct World {
    pub frag: Fragment,
    pub models: Vec<AutosarModel>,
    pub handles: Vec<Element>,
    pub idmap: HashMap<Element, usize>,
    pub files: Vec<ArxmlFile>,
    pub poisoned: bool,
    pub probe_names: Vec<String>,
    pub want_ser: bool,
}

pub fn path_to_json(p: &str) -> Value {
    if let Some(rest) = p.strip_prefix('/') {
        Value::Array(rest.split('/').map(|c| json!(c)).collect())
    } else {
        json!([format!("?{p}")])
    }
}

pub fn json_to_path(v: &Value) -> String {
    let mut s = String::new();
    for c in v.as_array().map(|a| a.as_slice()).unwrap_or(&[]) {
        s.push('/');
        s.push_str(c.as_str().unwrap_or("?"));
    }
    s
}

fn err_name(e: &AutosarDataError) -> String {
    let d = format!("{e:?}");
    d.split(|c: char| !(c.is_alphanumeric() || c == '_')).next().unwrap_or("?").to_string()
}

pub fn warn_kind(e: &AutosarDataError) -> String {
    match e {
        AutosarDataError::ParserError { source, .. } => {
            let d = format!("{source:?}");
            d.split(|c: char| !(c.is_alphanumeric() || c == '_')).next().unwrap_or("?").to_string()
        }
        AutosarDataError::LexerError { source, .. } => {
            let d = format!("{source:?}");
            format!("Lexer{}", d.split(|c: char| !(c.is_alphanumeric() || c == '_')).next().unwrap_or("?"))
        }
        other => err_name(other),
    }
}

pub fn text_hash(s: &str) -> String {
    // FNV-1a 64: only used to compare two texts for byte equality inside one observation log
    let mut h: u64 = 0xcbf29ce484222325;
    for b in s.as_bytes() {
        h ^= *b as u64;
        h = h.wrapping_mul(0x100000001b3);
    }
    format!("{h:016x}")
}

fn res_ok(v: usize) -> Value {
    json!({"t": "ok", "v": v})
}
fn res_err(e: &AutosarDataError) -> Value {
    json!({"t": "err", "v": err_name(e)})
}

impl World {
    pub fn new(nmodels: usize) -> World {
        let mut w = World {
            frag: extract::fragment(),
            models: (0..nmodels).map(|_| AutosarModel::new()).collect(),
            handles: vec![],
            idmap: HashMap::new(),
            files: vec![],
            poisoned: false,
            probe_names: vec![],
            want_ser: false,
        };
        w.register_new();
        w
    }

    fn id_of(&mut self, e: &Element) -> usize {
        if let Some(i) = self.idmap.get(e) {
            return *i;
        }
        self.handles.push(e.clone());
        let id = self.handles.len();
        self.idmap.insert(e.clone(), id);
        id
    }

    fn fid_of(&mut self, f: &ArxmlFile) -> usize {
        if let Some(p) = self.files.iter().position(|x| x == f) {
            return p + 1;
        }
        self.files.push(f.clone());
        self.files.len()
    }

    fn fid_of_weak(&mut self, f: &WeakArxmlFile) -> usize {
        match f.upgrade() {
            Some(f) => self.fid_of(&f),
            None => 0,
        }
    }

    /// number every element reachable from any model root that has no id yet, models in order, document order
    pub fn register_new(&mut self) {
        for m in 0..self.models.len() {
            let root = self.models[m].root_element();
            self.register_tree(&root);
            for f in self.models[m].files().collect::<Vec<_>>() {
                self.fid_of(&f);
            }
        }
    }

    fn register_tree(&mut self, e: &Element) {
        // own recursive walk over content() -- deliberately not the library's DFS iterator
        self.id_of(e);
        let subs: Vec<Element> = e.content().filter_map(|c| c.unwrap_element()).collect();
        for s in subs {
            self.register_tree(&s);
        }
    }

    pub fn el(&self, v: &Value) -> Option<Element> {
        let i = v.as_u64()? as usize;
        if i >= 1 && i <= self.handles.len() { Some(self.handles[i - 1].clone()) } else { None }
    }
    pub fn file(&self, v: &Value) -> Option<ArxmlFile> {
        let i = v.as_u64()? as usize;
        if i >= 1 && i <= self.files.len() { Some(self.files[i - 1].clone()) } else { None }
    }

    pub fn cdata_from(&self, v: &Value) -> CharacterData {
        let k = v["k"].as_str().unwrap_or("s");
        match k {
            "p" => CharacterData::String(json_to_path(&v["v"])),
            "e" => match EnumItem::from_str(v["v"].as_str().unwrap_or("")) {
                Ok(it) => CharacterData::Enum(it),
                Err(_) => CharacterData::String(v["v"].as_str().unwrap_or("").to_string()),
            },
            "u" => CharacterData::UnsignedInteger(v["v"].as_str().unwrap_or("0").parse().unwrap_or(0)),
            "f" => CharacterData::Float(v["v"].as_str().unwrap_or("0").parse().unwrap_or(0.0)),
            // (a double quote is written {22} in the specification: TLC chokes on a quote inside a string constant)
            _ => CharacterData::String(v["v"].as_str().unwrap_or("").replace("{22}", "\"")),
        }
    }

    pub fn cdata_to(&self, c: &CharacterData, is_ref: bool) -> Value {
        match c {
            CharacterData::Enum(e) => json!({"k": "e", "v": e.to_str()}),
            CharacterData::String(s) => {
                if is_ref && s.starts_with('/') {
                    json!({"k": "p", "v": path_to_json(s)})
                } else {
                    json!({"k": "s", "v": s.replace('"', "{22}")})
                }
            }
            CharacterData::UnsignedInteger(u) => json!({"k": "u", "v": u.to_string()}),
            CharacterData::Float(f) => json!({"k": "f", "v": f.to_string()}),
        }
    }

    /// execute one abstract action in a worker thread behind catch_unwind and a watchdog
    pub fn exec(&mut self, a: &Value) -> Value {
        if self.poisoned {
            return json!({"t": "skipped", "v": "poisoned"});
        }
        // a call that never returned once is not made again in other histories (every hang costs a watchdog period and a
        // leaked thread): it counts as hanging there, too, and the rest of the exploration goes on
        let akey = a.to_string();
        if HUNG_CALLS.lock().map(|s| s.contains(&akey)).unwrap_or(false) {
            self.poisoned = true;
            return json!({"t": "hang", "v": a["op"].as_str().unwrap_or("")});
        }
        let job = self.prepare(a);
        let Some(job) = job else { return json!({"t": "badaction", "v": a.to_string()}) };
        let timeout = Duration::from_millis(
            std::env::var("VH_HANG_MS").ok().and_then(|s| s.parse().ok()).unwrap_or(2500),
        );
        match run_guarded(job, timeout) {
            Guarded::Done(out) => self.finish(out),
            Guarded::Panic(msg) => json!({"t": "panic", "v": msg}),
            Guarded::Skipped => {
                self.poisoned = true;
                json!({"t": "skipped", "v": "hang budget exhausted"})
            }
            Guarded::Hang => {
                self.poisoned = true;
                if let Ok(mut s) = HUNG_CALLS.lock() {
                    s.insert(akey);
                }
                json!({"t": "hang", "v": a["op"].as_str().unwrap_or("")})
            }
        }
    }

    fn finish(&mut self, out: Out) -> Value {
        match out {
            Out::Json(v) => v,
            Out::Unit(Ok(())) => res_ok(0),
            Out::Unit(Err(e)) => res_err(&e),
            Out::Elem(Ok(e)) => {
                // ids are given in document order to everything new
                self.register_new();
                let id = self.id_of(&e);
                res_ok(id)
            }
            Out::Elem(Err(e)) => res_err(&e),
            Out::File(Ok(f)) => {
                let fid = self.fid_of(&f);
                res_ok(fid)
            }
            Out::File(Err(e)) => res_err(&e),
            Out::Bool(b) => res_ok(b as usize),
            Out::Load(Ok((f, warns))) => {
                self.register_new();
                let fid = self.fid_of(&f);
                json!({"t": "ok", "v": fid, "warn": warns.iter().map(|w| w.to_string()).collect::<Vec<_>>()})
            }
            Out::Load(Err(e)) => json!({"t": "err", "v": err_name(&e), "msg": e.to_string()}),
            Out::Model(Ok(m)) => {
                self.models.push(m);
                self.register_new();
                res_ok(self.models.len())
            }
            Out::Model(Err(e)) => res_err(&e),
        }
    }

    fn prepare(&self, a: &Value) -> Option<Box<dyn FnOnce() -> Out + Send>> {
        let op = a["op"].as_str()?;
        let pos = a["pos"].as_i64().unwrap_or(-1);
        let ename = |v: &Value| ElementName::from_str(v.as_str().unwrap_or("")).ok();
        Some(match op {
            "CreateFile" => {
                let m = self.models.get(a["m"].as_u64()? as usize - 1)?.clone();
                let name = a["name"].as_str()?.to_string();
                let ver = vparse(a["ver"].as_str()?);
                Box::new(move || Out::File(m.create_file(name, ver)))
            }
            "RemoveFile" => {
                let m = self.models.get(a["m"].as_u64()? as usize - 1)?.clone();
                let f = self.file(&a["f"])?;
                Box::new(move || {
                    m.remove_file(&f);
                    Out::Unit(Ok(()))
                })
            }
            "CreateSub" => {
                let p = self.el(&a["p"])?;
                let k = ename(&a["k"])?;
                Box::new(move || Out::Elem(if pos < 0 { p.create_sub_element(k) } else { p.create_sub_element_at(k, pos as usize) }))
            }
            "CreateNamed" => {
                let p = self.el(&a["p"])?;
                let k = ename(&a["k"])?;
                let name = a["name"].as_str()?.to_string();
                Box::new(move || {
                    Out::Elem(if pos < 0 { p.create_named_sub_element(k, &name) } else { p.create_named_sub_element_at(k, &name, pos as usize) })
                })
            }
            "Copy" => {
                let p = self.el(&a["p"])?;
                let c = self.el(&a["c"])?;
                Box::new(move || Out::Elem(if pos < 0 { p.create_copied_sub_element(&c) } else { p.create_copied_sub_element_at(&c, pos as usize) }))
            }
            "Move" => {
                let p = self.el(&a["p"])?;
                let c = self.el(&a["c"])?;
                Box::new(move || Out::Elem(if pos < 0 { p.move_element_here(&c) } else { p.move_element_here_at(&c, pos as usize) }))
            }
            "Remove" => {
                let p = self.el(&a["p"])?;
                let c = self.el(&a["c"])?;
                Box::new(move || Out::Unit(p.remove_sub_element(c)))
            }
            "RemoveKind" => {
                let p = self.el(&a["p"])?;
                let k = ename(&a["k"])?;
                Box::new(move || Out::Unit(p.remove_sub_element_kind(k)))
            }
            "Rename" => {
                let p = self.el(&a["p"])?;
                let name = a["name"].as_str()?.to_string();
                Box::new(move || Out::Unit(p.set_item_name(&name)))
            }
            "SetText" => {
                let p = self.el(&a["p"])?;
                let v = self.cdata_from(&a["val"]);
                Box::new(move || Out::Unit(p.set_character_data(v)))
            }
            "RemoveText" => {
                let p = self.el(&a["p"])?;
                Box::new(move || Out::Unit(p.remove_character_data()))
            }
            "SetRef" => {
                let p = self.el(&a["p"])?;
                let c = self.el(&a["c"])?;
                Box::new(move || Out::Unit(p.set_reference_target(&c)))
            }
            "SetAttr" => {
                let p = self.el(&a["p"])?;
                let an = AttributeName::from_str(a["an"].as_str()?).ok()?;
                let v = self.cdata_from(&a["val"]);
                Box::new(move || Out::Unit(p.set_attribute(an, v)))
            }
            "SetAttrString" => {
                let p = self.el(&a["p"])?;
                let an = AttributeName::from_str(a["an"].as_str()?).ok()?;
                let v = a["val"]["v"].as_str()?.to_string();
                Box::new(move || Out::Unit(p.set_attribute_string(an, &v)))
            }
            "RemoveAttr" => {
                let p = self.el(&a["p"])?;
                let an = AttributeName::from_str(a["an"].as_str()?).ok()?;
                Box::new(move || Out::Bool(p.remove_attribute(an)))
            }
            "SetComment" => {
                let p = self.el(&a["p"])?;
                let c: Option<String> = a["name"].as_str().filter(|s| !s.is_empty()).map(|s| s.to_string());
                Box::new(move || {
                    p.set_comment(c);
                    Out::Unit(Ok(()))
                })
            }
            "AddToFile" => {
                let p = self.el(&a["p"])?;
                let f = self.file(&a["f"])?;
                Box::new(move || Out::Unit(p.add_to_file(&f)))
            }
            "RemoveFromFile" => {
                let p = self.el(&a["p"])?;
                let f = self.file(&a["f"])?;
                Box::new(move || Out::Unit(p.remove_from_file(&f)))
            }
            "InsertText" => {
                let p = self.el(&a["p"])?;
                let txt = a["name"].as_str()?.to_string();
                let pos = if pos < 0 { usize::MAX } else { pos as usize };
                Box::new(move || Out::Unit(p.insert_character_content_item(&txt, pos)))
            }
            "RemoveTextItem" => {
                let p = self.el(&a["p"])?;
                let pos = if pos < 0 { usize::MAX } else { pos as usize };
                Box::new(move || Out::Unit(p.remove_character_content_item(pos)))
            }
            "Sort" => {
                let p = self.el(&a["p"])?;
                Box::new(move || {
                    p.sort();
                    Out::Unit(Ok(()))
                })
            }
            "Load" => {
                let m = self.models.get(a["m"].as_u64()? as usize - 1)?.clone();
                let name = a["name"].as_str()?.to_string();
                // the document is given literally or by the name of one of the driver's fixture documents
                let text = match a["text"].as_str() {
                    Some(t) if !t.is_empty() => t.to_string(),
                    _ => crate::drive::docs().into_iter().find(|(n, _)| Some(n.as_str()) == a["doc"].as_str().or(a["k"].as_str())).map(|(_, t)| t)?,
                };
                let strict = a["strict"].as_bool().unwrap_or(a["ver"].as_str() != Some("lenient"));
                Box::new(move || Out::Load(m.load_buffer(text.as_bytes(), name, strict)))
            }
            "Duplicate" => {
                let m = self.models.get(a["m"].as_u64()? as usize - 1)?.clone();
                Box::new(move || Out::Model(m.duplicate()))
            }
            "SetFilename" => {
                let f = self.file(&a["f"])?;
                let name = a["name"].as_str()?.to_string();
                Box::new(move || Out::Unit(f.set_filename(name)))
            }
            _ => return None,
        })
    }

    fn kind_key(&self, e: &Element) -> String {
        let t = e.element_type();
        let n = e.element_name();
        self.frag
            .by_type
            .iter()
            .find(|(tt, k)| *tt == t && self.frag.kinds[k].0 == n)
            .map(|(_, k)| k.clone())
            .unwrap_or_else(|| format!("?{}{:?}", n.to_str(), t))
    }

    fn fm_json(&mut self, set: &std::collections::HashSet<WeakArxmlFile>) -> Value {
        let mut v: Vec<usize> = set.iter().map(|f| self.fid_of_weak(f)).collect();
        v.sort();
        json!(v)
    }

    fn dfs_json(&mut self, it: impl Iterator<Item = (usize, Element)>) -> Value {
        let items: Vec<(usize, Element)> = it.collect();
        Value::Array(items.iter().map(|(d, e)| json!([d, self.id_of(e)])).collect())
    }

    /// the observation record; `full` adds the API-derived views (iterators, lookups, reports)
    pub fn observe(&mut self, full: bool) -> Value {
        if self.poisoned {
            return json!({"poisoned": true});
        }
        self.register_new();
        let mut nodes = vec![];
        let mut i = 0;
        // handles may grow while observing (an API call may hand out an element never seen before)
        while i < self.handles.len() {
            let e = self.handles[i].clone();
            i += 1;
            let is_ref = e.is_reference();
            let is_root = e.element_name() == ElementName::Autosar;
            let cont: Vec<Value> = e
                .content()
                .map(|c| match c {
                    ElementContent::Element(s) => json!({"t": "e", "id": self.id_of(&s), "v": {"k": "s", "v": ""}}),
                    ElementContent::CharacterData(cd) => json!({"t": "c", "id": 0, "v": self.cdata_to(&cd, is_ref)}),
                })
                .collect();
            // the three namespace / schema attributes of the root are fixed (xsi:schemaLocation is rewritten by every
            // serialize(), also by the observation itself) and are not part of the observation
            let at: Vec<Value> = e
                .attributes()
                .filter(|a| !(is_root && matches!(a.attrname, AttributeName::xsiSchemalocation | AttributeName::xmlns | AttributeName::xmlnsXsi)))
                .map(|a| json!({"n": a.attrname.to_str(), "v": self.cdata_to(&a.content, false)}))
                .collect();
            let par = match e.parent() {
                Ok(Some(p)) => json!({"t": "e", "v": self.id_of(&p)}),
                Ok(None) => {
                    let m = e.model().ok().and_then(|m| self.models.iter().position(|x| *x == m)).map(|p| p + 1).unwrap_or(0);
                    json!({"t": "m", "v": m})
                }
                Err(_) => json!({"t": "x", "v": 0}),
            };
            let fmr = e.file_membership();
            let (fm_local, fmv) = match &fmr {
                Ok((local, set)) => {
                    let s = self.fm_json(set);
                    (if *local { s.clone() } else { json!([]) }, json!({"t": "ok", "local": local, "set": s, "v": ""}))
                }
                Err(er) => (json!([]), json!({"t": "err", "local": false, "set": [], "v": err_name(er)})),
            };
            let mut node = json!({
                "k": self.kind_key(&e),
                "par": par,
                "cont": cont,
                "at": at,
                "cmt": e.comment().map(|c| vec![c]).unwrap_or_default(),
                "fm": fm_local,
            });
            if full {
                let o = node.as_object_mut().unwrap();
                o.insert("pos".into(), json!(e.position().map(|p| p as i64).unwrap_or(-1)));
                let subs: Vec<Element> = e.sub_elements().collect();
                o.insert("sub".into(), json!(subs.iter().map(|s| self.id_of(s)).collect::<Vec<_>>()));
                o.insert("name".into(), json!(e.item_name().map(|n| vec![n]).unwrap_or_default()));
                o.insert("ident".into(), json!(e.is_identifiable()));
                o.insert("path".into(), match e.path() {
                    Ok(p) => json!({"t": "ok", "v": path_to_json(&p)}),
                    Err(er) => json!({"t": "err", "v": err_name(&er)}),
                });
                o.insert("model".into(), match e.model() {
                    Ok(m) => json!({"t": "ok", "v": self.models.iter().position(|x| *x == m).map(|p| p + 1).unwrap_or(0)}),
                    Err(er) => json!({"t": "err", "v": err_name(&er)}),
                });
                o.insert("fmq".into(), fmv);
                o.insert("minv".into(), match e.min_version() {
                    Ok(v) => json!({"t": "ok", "v": vname(v)}),
                    Err(er) => json!({"t": "err", "v": err_name(&er)}),
                });
                o.insert("edfs".into(), self.dfs_json(e.elements_dfs()));
                if is_ref {
                    o.insert("tgt".into(), match e.get_reference_target() {
                        Ok(t) => json!({"t": "ok", "v": self.id_of(&t)}),
                        Err(er) => json!({"t": "err", "v": err_name(&er)}),
                    });
                } else {
                    o.insert("tgt".into(), json!({"t": "na", "v": 0}));
                }
            }
            nodes.push(node);
        }
        let mut models = vec![];
        for mi in 0..self.models.len() {
            let m = self.models[mi].clone();
            let root = self.id_of(&m.root_element());
            let files: Vec<usize> = m.files().collect::<Vec<_>>().iter().map(|f| self.fid_of(f)).collect();
            let mut idx: Vec<Value> = vec![];
            for (p, w) in m.identifiable_elements() {
                let id = w.upgrade().map(|e| self.id_of(&e)).unwrap_or(0);
                idx.push(json!([path_to_json(&p), id]));
            }
            let mut keys = m.verif_reference_origin_keys();
            keys.sort();
            let mut refo = vec![];
            for k in &keys {
                let lst = m.get_references_to(k);
                let mut ids: Vec<usize> = lst.iter().map(|w| w.upgrade().map(|e| self.id_of(&e)).unwrap_or(0)).collect();
                ids.sort();
                refo.push(json!([path_to_json(k), ids]));
            }
            let mut mo = json!({"root": root, "files": files, "idx": idx, "refo": refo});
            if full {
                let o = mo.as_object_mut().unwrap();
                o.insert("dfs".into(), self.dfs_json(m.elements_dfs()));
                o.insert("dfs1".into(), self.dfs_json(m.elements_dfs_with_max_depth(1)));
                o.insert("dfs2".into(), self.dfs_json(m.elements_dfs_with_max_depth(2)));
                // probes: every path mentioned anywhere plus one-name neighbours
                let mut probes: Vec<String> = vec![];
                for (p, _) in m.identifiable_elements() {
                    probes.push(p);
                }
                probes.extend(keys.iter().cloned());
                for h in &self.handles {
                    if let Ok(p) = h.path() {
                        probes.push(p);
                    }
                }
                let base: Vec<String> = probes.clone();
                for p in &base {
                    if let Some(pos) = p.rfind('/') {
                        if pos > 0 {
                            probes.push(p[..pos].to_string());
                        }
                        for n in &self.probe_names {
                            probes.push(format!("{}/{}", &p[..pos], n));
                            probes.push(format!("{p}/{n}"));
                        }
                        probes.push(format!("{p}0"));
                        probes.push(format!("{p}_1"));
                        if p.len() > pos + 2 {
                            probes.push(p[..p.len() - 1].to_string());
                        }
                    }
                }
                for n in &self.probe_names {
                    probes.push(format!("/{n}"));
                }
                probes.sort();
                probes.dedup();
                let mut lookup = vec![];
                let mut refsto = vec![];
                for p in &probes {
                    if !p.starts_with('/') {
                        continue;
                    }
                    let r = m.get_element_by_path(p).map(|e| self.id_of(&e)).unwrap_or(0);
                    lookup.push(json!([path_to_json(p), r]));
                    let lst = m.get_references_to(p);
                    if !lst.is_empty() {
                        let mut ids: Vec<usize> = lst.iter().map(|w| w.upgrade().map(|e| self.id_of(&e)).unwrap_or(0)).collect();
                        ids.sort();
                        refsto.push(json!([path_to_json(p), ids]));
                    }
                }
                o.insert("lookup".into(), json!(lookup));
                o.insert("refsto".into(), json!(refsto));
            }
            // the invalid-reference report is part of the reduced observation, too (it is derived from the model, but by code of its own)
            let mut broken: Vec<usize> = m.check_references().iter().map(|w| w.upgrade().map(|e| self.id_of(&e)).unwrap_or(0)).collect();
            broken.sort();
            mo.as_object_mut().unwrap().insert("broken".into(), json!(broken));
            models.push(mo);
        }
        let mut files = vec![];
        for fi in 0..self.files.len() {
            let f = self.files[fi].clone();
            let mut fo = json!({
                "name": f.filename().to_string_lossy(),
                "ver": vname(f.version()),
                "m": f.model().ok().and_then(|m| self.models.iter().position(|x| *x == m)).map(|p| p + 1).unwrap_or(0),
            });
            if full {
                let o = fo.as_object_mut().unwrap();
                o.insert("dfs".into(), self.dfs_json(f.elements_dfs()));
                o.insert("dfs1".into(), self.dfs_json(f.elements_dfs_with_max_depth(1)));
                o.insert("dfs2".into(), self.dfs_json(f.elements_dfs_with_max_depth(2)));
                o.insert("dfs3".into(), self.dfs_json(f.elements_dfs_with_max_depth(3)));
                if self.want_ser {
                    o.insert("ser".into(), self.ser_json(&f));
                }
            }
            files.push(fo);
        }
        json!({"n": nodes, "models": models, "f": files})
    }

    /// serialize the file and load the text alone (leniently) into a fresh model: the element list of that model
    fn ser_json(&mut self, f: &ArxmlFile) -> Value {
        match f.serialize() {
            Ok(text) => {
                let fresh = AutosarModel::new();
                match fresh.load_buffer(text.as_bytes(), "reload.arxml", false) {
                    Ok((_, warns)) => {
                        let els: Vec<Value> = fresh
                            .elements_dfs()
                            .map(|(d, e)| {
                                let cd = e.character_data().map(|c| self.cdata_to(&c, e.is_reference())).unwrap_or(json!({"k": "none", "v": ""}));
                                json!([d, e.element_name().to_str(), cd])
                            })
                            .collect();
                        // warning kinds: the variant name of the parser / lexer error inside the warning
                        let kinds: Vec<String> = warns.iter().map(warn_kind).collect();
                        json!({"t": "ok", "els": els, "warn": warns.iter().map(|w| w.to_string()).collect::<Vec<_>>(), "warnk": kinds,
                               "len": text.len(), "h": text_hash(&text)})
                    }
                    Err(e) => json!({"t": "reloaderr", "els": [], "warn": [e.to_string()], "warnk": [warn_kind(&e)], "len": text.len(), "h": text_hash(&text)}),
                }
            }
            Err(e) => json!({"t": "err", "els": [], "warn": [err_name(&e)], "warnk": [], "len": 0, "h": ""}),
        }
    }
}

pub enum Guarded {
    Skipped,
    Done(Out),
    Panic(String),
    Hang,
}

type Job = Box<dyn FnOnce() -> Out + Send>;
struct Executor {
    tx: mpsc::Sender<(Job, mpsc::Sender<std::thread::Result<Out>>)>,
}

fn new_executor() -> Executor {
    let (tx, rx) = mpsc::channel::<(Job, mpsc::Sender<std::thread::Result<Out>>)>();
    std::thread::Builder::new()
        .stack_size(256 << 20)
        .spawn(move || {
            while let Ok((job, back)) = rx.recv() {
                let r = std::panic::catch_unwind(std::panic::AssertUnwindSafe(job));
                let _ = back.send(r);
            }
        })
        .unwrap();
    Executor { tx }
}

thread_local! {
    static EXEC: std::cell::RefCell<Option<Executor>> = const { std::cell::RefCell::new(None) };
}

/// run a call of the code under test on a long-lived executor thread behind catch_unwind and a watchdog;
/// an executor whose call never returns is abandoned (the thread is leaked) and replaced
pub static HANGS: std::sync::atomic::AtomicUsize = std::sync::atomic::AtomicUsize::new(0);
/// after this many calls that never returned the process stops executing further calls (each costs a watchdog
/// period and a leaked thread); what was seen until then is reported
pub const HANG_BUDGET: usize = 150;
/// the calls (operation + arguments) that hung
pub static HUNG_CALLS: std::sync::Mutex<std::collections::BTreeSet<String>> = std::sync::Mutex::new(std::collections::BTreeSet::new());

pub fn run_guarded(job: Job, timeout: Duration) -> Guarded {
    if HANGS.load(std::sync::atomic::Ordering::Relaxed) >= HANG_BUDGET {
        return Guarded::Skipped;
    }
    if std::env::var("VH_INLINE").is_ok() {
        // run on the calling thread (its stack size is what is being tried); panics are still data
        return match std::panic::catch_unwind(std::panic::AssertUnwindSafe(job)) {
            Ok(out) => Guarded::Done(out),
            Err(p) => Guarded::Panic(p.downcast_ref::<String>().cloned().or(p.downcast_ref::<&str>().map(|s| s.to_string())).unwrap_or_default()),
        };
    }
    EXEC.with(|cell| {
        let mut slot = cell.borrow_mut();
        if slot.is_none() {
            *slot = Some(new_executor());
        }
        let (btx, brx) = mpsc::channel();
        slot.as_ref().unwrap().tx.send((job, btx)).unwrap();
        match brx.recv_timeout(timeout) {
            Ok(Ok(out)) => Guarded::Done(out),
            Ok(Err(p)) => {
                let msg = p.downcast_ref::<String>().cloned().or(p.downcast_ref::<&str>().map(|s| s.to_string())).unwrap_or_default();
                Guarded::Panic(msg)
            }
            Err(_) => {
                *slot = None;
                HANGS.fetch_add(1, std::sync::atomic::Ordering::Relaxed);
                Guarded::Hang
            }
        }
    })
}

pub enum Out {
    Json(Value),
    Unit(Result<(), AutosarDataError>),
    Elem(Result<Element, AutosarDataError>),
    File(Result<ArxmlFile, AutosarDataError>),
    Bool(bool),
    Load(Result<(ArxmlFile, Vec<AutosarDataError>), AutosarDataError>),
    Model(Result<AutosarModel, AutosarDataError>),
}
