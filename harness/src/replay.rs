//! Replays TLC-generated transitions on the real library (DESIGN 4.2).
//! input  (ndjson): {"fix":[actions], "h":[actions], "a":action, "res":res, "post":reduced spec state}
//! output: summary json on stdout; mismatching transitions and a seeded sample of matching ones are written as
//! full-observation mini-traces (reset line + step line) for evaluation by TLC.
use crate::core::World;
use serde_json::{json, Value};
use std::collections::HashSet;
use std::io::{BufRead, Write};
use std::sync::Mutex;

/// sort the array-valued fields that stand for sets so that a dumb equality works
pub fn normalise(v: &mut Value) {
    if let Some(ms) = v.get_mut("models").and_then(|m| m.as_array_mut()) {
        for m in ms {
            for key in ["idx", "refo"] {
                if let Some(a) = m.get_mut(key).and_then(|x| x.as_array_mut()) {
                    a.sort_by_key(|x| x.to_string());
                }
            }
        }
    }
    if let Some(ns) = v.get_mut("n").and_then(|m| m.as_array_mut()) {
        for n in ns {
            if let Some(a) = n.get_mut("fm").and_then(|x| x.as_array_mut()) {
                a.sort_by_key(|x| x.as_u64().unwrap_or(0));
            }
        }
    }
}

pub fn run_history(nm: usize, fix: &[Value], h: &[Value], names: &[String], want_ser: bool) -> World {
    let mut w = World::new(nm);
    w.probe_names = names.to_vec();
    w.want_ser = want_ser;
    for a in fix.iter().chain(h.iter()) {
        let _ = w.exec(a);
    }
    w
}

fn splitmix(x: &mut u64) -> u64 {
    *x = x.wrapping_add(0x9E3779B97F4A7C15);
    let mut z = *x;
    z = (z ^ (z >> 30)).wrapping_mul(0xBF58476D1CE4E5B9);
    z = (z ^ (z >> 27)).wrapping_mul(0x94D049BB133111EB);
    z ^ (z >> 31)
}

pub fn replay(input: &str, outdir: &str, nm: usize, seed: u64, sample: usize, names: Vec<String>, want_ser: bool) -> Value {
    let f = std::fs::File::open(input).expect("open input");
    let mut lines: Vec<Value> = vec![];
    for l in std::io::BufReader::new(f).lines() {
        let l = l.unwrap();
        if l.trim().is_empty() {
            continue;
        }
        if let Ok(v) = serde_json::from_str::<Value>(&l) {
            lines.push(v);
        }
    }
    let total = lines.len();
    let maxd = lines.iter().map(|l| l["h"].as_array().map(|a| a.len()).unwrap_or(0)).max().unwrap_or(0);
    let tainted: Mutex<HashSet<String>> = Mutex::new(HashSet::new());
    let mism: Mutex<Vec<Value>> = Mutex::new(vec![]);
    let samp: Mutex<Vec<Value>> = Mutex::new(vec![]);
    let counts = Mutex::new((0usize, 0usize, 0usize, 0usize)); // matched, mismatched, skipped, resmismatch
    let opcount: Mutex<std::collections::BTreeMap<String, usize>> = Mutex::new(Default::default());
    let sample_every = if sample == 0 { usize::MAX } else { (total / sample).max(1) };
    let nthreads = std::thread::available_parallelism().map(|n| n.get()).unwrap_or(4).min(16);
    for d in 0..=maxd {
        let level: Vec<(usize, &Value)> = lines.iter().enumerate().filter(|(_, l)| l["h"].as_array().map(|a| a.len()).unwrap_or(0) == d).collect();
        let chunks: Vec<Vec<(usize, &Value)>> = (0..nthreads).map(|t| level.iter().skip(t).step_by(nthreads).cloned().collect()).collect();
        let newtaint: Mutex<Vec<String>> = Mutex::new(vec![]);
        std::thread::scope(|sc| {
            for ch in &chunks {
                let (tainted, mism, samp, counts, newtaint, opcount, names) = (&tainted, &mism, &samp, &counts, &newtaint, &opcount, &names);
                sc.spawn(move || {
                    for (li, l) in ch {
                        let empty = vec![];
                        let fix = l["fix"].as_array().unwrap_or(&empty);
                        let h = l["h"].as_array().unwrap_or(&empty);
                        // skip histories with a tainted prefix
                        let mut skip = false;
                        {
                            let t = tainted.lock().unwrap();
                            if !t.is_empty() {
                                for k in 1..=h.len() {
                                    if t.contains(&Value::Array(h[..k].to_vec()).to_string()) {
                                        skip = true;
                                        break;
                                    }
                                }
                            }
                        }
                        if skip {
                            counts.lock().unwrap().2 += 1;
                            continue;
                        }
                        let mut rng = seed ^ (*li as u64).wrapping_mul(0x9E3779B97F4A7C15);
                        let sampled = splitmix(&mut rng) % (sample_every as u64) == 0;
                        let mut w = run_history(nm, fix, h, names, want_ser);
                        let pre_full = if sampled { Some(w.observe(true)) } else { None };
                        let res = w.exec(&l["a"]);
                        let mut post = w.observe(false);
                        normalise(&mut post);
                        let mut exp = l["post"].clone();
                        normalise(&mut exp);
                        let res_t = res["t"].as_str().unwrap_or("");
                        let same_res = res["t"] == l["res"]["t"] && (res_t == "panic" || res_t == "hang" || res["v"] == l["res"]["v"]);
                        let same_post = res_t == "hang" || post == exp;
                        *opcount.lock().unwrap().entry(l["a"]["op"].as_str().unwrap_or("?").to_string()).or_default() += 1;
                        if same_res && same_post {
                            counts.lock().unwrap().0 += 1;
                            if let Some(pre) = pre_full {
                                if res_t != "hang" {
                                    let post_full = w.observe(true);
                                    samp.lock().unwrap().push(json!({"fix": fix, "h": h, "a": l["a"], "res": res, "pre": pre, "post": post_full}));
                                }
                            }
                        } else {
                            {
                                let mut c = counts.lock().unwrap();
                                c.1 += 1;
                                if !same_res {
                                    c.3 += 1;
                                }
                            }
                            let mut hh = h.clone();
                            hh.push(l["a"].clone());
                            newtaint.lock().unwrap().push(Value::Array(hh).to_string());
                            // re-run to get full observations around the step
                            let mut w2 = run_history(nm, fix, h, names, want_ser);
                            let pre = w2.observe(true);
                            let res2 = w2.exec(&l["a"]);
                            let post2 = if w2.poisoned { pre.clone() } else { w2.observe(true) };
                            mism.lock().unwrap().push(json!({"fix": fix, "h": h, "a": l["a"], "res": res2, "exp_res": l["res"],
                                "pre": pre, "post": post2, "same_res": same_res, "same_post": same_post,
                                "exp_post": exp, "got_post": post}));
                        }
                    }
                });
            }
        });
        let mut t = tainted.lock().unwrap();
        for k in newtaint.into_inner().unwrap() {
            t.insert(k);
        }
    }
    let write_traces = |name: &str, items: &Vec<Value>| {
        let mut f = std::fs::File::create(format!("{outdir}/{name}")).unwrap();
        for it in items {
            let reset = json!({"ev": {"op": "reset"}, "res": {"t": "ok", "v": 0}, "obs": it["pre"], "h": it["h"], "fix": it["fix"]});
            let step = json!({"ev": it["a"], "res": it["res"], "obs": it["post"]});
            writeln!(f, "{reset}").unwrap();
            writeln!(f, "{step}").unwrap();
        }
    };
    let mism = mism.into_inner().unwrap();
    let samp = samp.into_inner().unwrap();
    write_traces("mismatch.ndjson", &mism);
    write_traces("sample.ndjson", &samp);
    {
        let mut f = std::fs::File::create(format!("{outdir}/mismatch_detail.ndjson")).unwrap();
        for it in &mism {
            let brief = json!({"fix": it["fix"], "h": it["h"], "a": it["a"], "res": it["res"], "exp_res": it["exp_res"],
                "same_res": it["same_res"], "same_post": it["same_post"], "exp_post": it["exp_post"], "got_post": it["got_post"]});
            writeln!(f, "{brief}").unwrap();
        }
    }
    let c = counts.into_inner().unwrap();
    json!({"transitions": total, "matched": c.0, "mismatched": c.1, "skipped_tainted": c.2, "res_mismatch": c.3,
           "sampled": samp.len(), "ops": opcount.into_inner().unwrap()})
}
