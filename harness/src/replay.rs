//! Replays TLC-generated transitions on the real library (DESIGN 4.2).
//! input  (ndjson): {"fix":[actions], "h":[actions], "a":action, "res":res, "post":reduced spec state}
//! output: summary json on stdout; mismatching transitions and a seeded sample of matching ones are written as
//! full-observation mini-traces (reset line + step line) for evaluation by TLC.
use crate::core::World;
use serde_json::{json, Value};
use std::collections::HashSet;
use std::io::{BufRead, Write};
use std::sync::Mutex;

/// sort the array-valued fields that stand for sets so that a dumb equality works
pub fn normalise(v: &mut Value) {
    if let Some(ms) = v.get_mut("models").and_then(|m| m.as_array_mut()) {
        for m in ms {
            for key in ["idx", "refo"] {
                if let Some(a) = m.get_mut(key).and_then(|x| x.as_array_mut()) {
                    a.sort_by_key(|x| x.to_string());
                }
            }
        }
    }
    if let Some(ns) = v.get_mut("n").and_then(|m| m.as_array_mut()) {
        for n in ns {
            if let Some(a) = n.get_mut("fm").and_then(|x| x.as_array_mut()) {
                a.sort_by_key(|x| x.as_u64().unwrap_or(0));
            }
        }
    }
}

pub fn run_history(nm: usize, fix: &[Value], h: &[Value], names: &[String], want_ser: bool) -> World {
    let mut w = World::new(nm);
    w.probe_names = names.to_vec();
    w.want_ser = want_ser;
    for a in fix.iter().chain(h.iter()) {
        let _ = w.exec(a);
    }
    w
}

fn splitmix(x: &mut u64) -> u64 {
    *x = x.wrapping_add(0x9E3779B97F4A7C15);
    let mut z = *x;
    z = (z ^ (z >> 30)).wrapping_mul(0xBF58476D1CE4E5B9);
    z = (z ^ (z >> 27)).wrapping_mul(0x94D049BB133111EB);
    z ^ (z >> 31)
}

pub fn replay(input: &str, fixfile: Option<&str>, outdir: &str, nm: usize, seed: u64, sample: usize, names: Vec<String>, want_ser: bool) -> Value {
    let text = std::fs::read_to_string(input).expect("read input");
    let raw: Vec<&str> = text.lines().filter(|l| !l.trim().is_empty()).collect();
    let nthreads = std::thread::available_parallelism().map(|n| n.get()).unwrap_or(4).min(16);
    let mut lines: Vec<Value> = Vec::with_capacity(raw.len());
    {
        let chunk = (raw.len() / nthreads).max(1);
        let parts: Vec<Vec<Value>> = std::thread::scope(|sc| {
            let hs: Vec<_> = raw.chunks(chunk).map(|c| sc.spawn(move || c.iter().filter_map(|l| serde_json::from_str::<Value>(l).ok()).collect::<Vec<Value>>())).collect();
            hs.into_iter().map(|h| h.join().unwrap()).collect()
        });
        for p in parts {
            lines.extend(p);
        }
    }
    drop(raw);
    let fixv: Vec<Value> = fixfile.map(|p| serde_json::from_str(&std::fs::read_to_string(p).expect("fix file")).expect("fix json")).unwrap_or_default();
    let total = lines.len();
    let maxd = lines.iter().map(|l| l["h"].as_array().map(|a| a.len()).unwrap_or(0)).max().unwrap_or(0);
    let tainted: Mutex<HashSet<String>> = Mutex::new(HashSet::new());
    let mism: Mutex<Vec<Value>> = Mutex::new(vec![]);
    let samp: Mutex<Vec<Value>> = Mutex::new(vec![]);
    let counts = Mutex::new((0usize, 0usize, 0usize, 0usize)); // matched, mismatched, skipped, resmismatch
    let opcount: Mutex<std::collections::BTreeMap<String, usize>> = Mutex::new(Default::default());
    let sample_every = if sample == 0 { usize::MAX } else { (total / sample).max(1) };
    for d in 0..=maxd {
        // group the transitions of this depth by their history: the world is built once per history and reused
        // as long as the executed steps have no observable effect (most enumerated calls fail)
        let mut groups: std::collections::HashMap<String, Vec<usize>> = std::collections::HashMap::new();
        for (i, l) in lines.iter().enumerate() {
            if l["h"].as_array().map(|a| a.len()).unwrap_or(0) == d {
                groups.entry(l["h"].to_string()).or_default().push(i);
            }
        }
        let mut glist: Vec<Vec<usize>> = groups.into_values().collect();
        glist.sort_by_key(|g| g[0]);
        let next = std::sync::atomic::AtomicUsize::new(0);
        let newtaint: Mutex<Vec<String>> = Mutex::new(vec![]);
        std::thread::scope(|sc| {
            for _ in 0..nthreads {
                let (tainted, mism, samp, counts, newtaint, opcount, names, fixv, glist, next, lines) =
                    (&tainted, &mism, &samp, &counts, &newtaint, &opcount, &names, &fixv, &glist, &next, &lines);
                sc.spawn(move || loop {
                    let gi = next.fetch_add(1, std::sync::atomic::Ordering::Relaxed);
                    if gi >= glist.len() {
                        break;
                    }
                    // tens of thousands of mismatching transitions: the tree is broken beyond the need for more witnesses
                    if counts.lock().unwrap().1 > 20_000 {
                        counts.lock().unwrap().2 += glist[gi].len();
                        continue;
                    }
                    let group = &glist[gi];
                    let empty = vec![];
                    let first = &lines[group[0]];
                    let fix = first["fix"].as_array().unwrap_or(fixv);
                    let h = first["h"].as_array().unwrap_or(&empty);
                    // skip histories with a tainted prefix
                    let mut skip = false;
                    {
                        let t = tainted.lock().unwrap();
                        if !t.is_empty() {
                            for k in 1..=h.len() {
                                if t.contains(&Value::Array(h[..k].to_vec()).to_string()) {
                                    skip = true;
                                    break;
                                }
                            }
                        }
                    }
                    if skip {
                        counts.lock().unwrap().2 += group.len();
                        continue;
                    }
                    let mut world: Option<World> = None;
                    let mut pre = Value::Null;
                    let mut local_ops: std::collections::BTreeMap<String, usize> = Default::default();
                    let (mut n_match, mut n_mis, mut n_resmis) = (0usize, 0usize, 0usize);
                    for li in group {
                        let l = &lines[*li];
                        if world.is_none() {
                            let mut w = run_history(nm, fix, h, names, want_ser);
                            if pre.is_null() {
                                pre = w.observe(false);
                                normalise(&mut pre);
                            }
                            world = Some(w);
                        }
                        let w = world.as_mut().unwrap();
                        let mut rng = seed ^ (*li as u64).wrapping_mul(0x9E3779B97F4A7C15);
                        let sampled = splitmix(&mut rng) % (sample_every as u64) == 0;
                        let same = l["post"].get("same").is_some();
                        let res = w.exec(&l["a"]);
                        let mut post = w.observe(false);
                        normalise(&mut post);
                        // "same": the specification says the step has no effect -- expected post-state = the pre-state
                        let exp = if same { pre.clone() } else { let mut e = l["post"].clone(); normalise(&mut e); e };
                        let res_t = res["t"].as_str().unwrap_or("");
                        if res_t == "skipped" {
                            counts.lock().unwrap().2 += 1;
                            world = None;
                            continue;
                        }
                        let same_res = res["t"] == l["res"]["t"] && (res_t == "panic" || res_t == "hang" || res["v"] == l["res"]["v"]);
                        let same_post = res_t == "hang" || post == exp;
                        *local_ops.entry(l["a"]["op"].as_str().unwrap_or("?").to_string()).or_default() += 1;
                        if post != pre || w.poisoned {
                            world = None; // the step had an effect: the next one starts from a fresh copy of the history
                        }
                        if same_res && same_post {
                            n_match += 1;
                            if sampled {
                                samp.lock().unwrap().push(json!({"fix": fix, "h": h, "a": l["a"]}));
                            }
                        } else {
                            n_mis += 1;
                            if !same_res {
                                n_resmis += 1;
                            }
                            let mut hh = h.clone();
                            hh.push(l["a"].clone());
                            newtaint.lock().unwrap().push(Value::Array(hh).to_string());
                            // a broken tree produces mismatches by the ten thousand: all are counted, the details of the first 500 are
                            // kept and the first 4000 are re-executed as traces for the judgement by TLC
                            let mut mm = mism.lock().unwrap();
                            if mm.len() < 500 {
                                mm.push(json!({"fix": fix, "h": h, "a": l["a"], "res": res, "exp_res": l["res"],
                                    "same_res": same_res, "same_post": same_post, "exp_post": exp, "got_post": post}));
                            } else if mm.len() < 4000 {
                                mm.push(json!({"fix": fix, "h": h, "a": l["a"], "res": res, "exp_res": l["res"],
                                    "same_res": same_res, "same_post": same_post, "exp_post": "", "got_post": ""}));
                            }
                        }
                    }
                    {
                        let mut c = counts.lock().unwrap();
                        c.0 += n_match;
                        c.1 += n_mis;
                        c.3 += n_resmis;
                    }
                    let mut oc = opcount.lock().unwrap();
                    for (k, v) in local_ops {
                        *oc.entry(k).or_default() += v;
                    }
                });
            }
        });
        let mut t = tainted.lock().unwrap();
        for k in newtaint.into_inner().unwrap() {
            t.insert(k);
        }
    }
    let write_traces = |name: &str, items: &Vec<Value>| {
        let mut f = std::fs::File::create(format!("{outdir}/{name}")).unwrap();
        for it in items {
            let empty = vec![];
            let fix = it["fix"].as_array().unwrap_or(&empty);
            let mut h = it["h"].as_array().unwrap_or(&empty).clone();
            h.push(it["a"].clone());
            write_history(&mut f, nm, fix, &h, &names, want_ser);
        }
    };
    let mism = mism.into_inner().unwrap();
    let samp = samp.into_inner().unwrap();
    // the traces are re-executed with a fresh budget of hanging calls: those that hung before are known and not made again
    crate::core::HANGS.store(0, std::sync::atomic::Ordering::Relaxed);
    write_traces("mismatch.ndjson", &mism);
    write_traces("sample.ndjson", &samp);
    {
        let mut f = std::fs::File::create(format!("{outdir}/mismatch_detail.ndjson")).unwrap();
        for it in &mism {
            let brief = json!({"fix": it["fix"], "h": it["h"], "a": it["a"], "res": it["res"], "exp_res": it["exp_res"],
                "same_res": it["same_res"], "same_post": it["same_post"], "exp_post": it["exp_post"], "got_post": it["got_post"]});
            writeln!(f, "{brief}").unwrap();
        }
    }
    let c = counts.into_inner().unwrap();
    json!({"transitions": total, "matched": c.0, "mismatched": c.1, "skipped_tainted": c.2, "res_mismatch": c.3,
           "sampled": samp.len(), "ops": opcount.into_inner().unwrap()})
}

/// execute fixture + history with a full observation after every step: one reset line, then one line per step
pub fn write_history(f: &mut impl Write, nm: usize, fix: &[Value], h: &[Value], names: &[String], want_ser: bool) -> usize {
    let mut w = run_history(nm, fix, &[], names, want_ser);
    let reset = json!({"ev": {"op": "reset"}, "res": {"t": "ok", "v": 0}, "obs": w.observe(true), "h": h, "fix": fix});
    writeln!(f, "{reset}").unwrap();
    let mut n = 1;
    for a in h {
        let res = w.exec(a);
        let obs = w.observe(true);
        let step = json!({"ev": a, "res": res, "obs": obs});
        writeln!(f, "{step}").unwrap();
        n += 1;
        if w.poisoned {
            break;
        }
    }
    n
}

/// `vh histories`: input ndjson lines {fix, h}; output: the concatenated full-observation traces
pub fn histories(input: &str, output: &str, nm: usize, names: Vec<String>, want_ser: bool) -> Value {
    let f = std::fs::File::open(input).expect("open input");
    let mut out = std::fs::File::create(output).unwrap();
    let mut nh = 0;
    let mut steps = 0;
    for l in std::io::BufReader::new(f).lines() {
        let l = l.unwrap();
        let Ok(v) = serde_json::from_str::<Value>(&l) else { continue };
        let empty = vec![];
        steps += write_history(&mut out, nm, v["fix"].as_array().unwrap_or(&empty), v["h"].as_array().unwrap_or(&empty), &names, want_ser);
        nh += 1;
    }
    json!({"histories": nh, "lines": steps})
}
