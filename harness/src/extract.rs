//! Dump the part of the specification tables that the TLA+ core / grammar modules need, read through the
//! public API of `autosar-data-specification` of the *current* /repo tree.
use autosar_data_specification::*;
use serde_json::{json, Map, Value};
use std::collections::{BTreeMap, VecDeque};
use std::str::FromStr;

pub const VERSIONS: [AutosarVersion; 3] = [
    AutosarVersion::Autosar_4_0_1,
    AutosarVersion::Autosar_4_3_0,
    AutosarVersion::Autosar_00050,
];

pub fn vname(v: AutosarVersion) -> &'static str {
    match v {
        AutosarVersion::Autosar_4_0_1 => "V401",
        AutosarVersion::Autosar_4_3_0 => "V430",
        AutosarVersion::Autosar_00050 => "V50",
        _ => "VX",
    }
}

pub fn vparse(s: &str) -> AutosarVersion {
    match s {
        "V401" => AutosarVersion::Autosar_4_0_1,
        "V430" => AutosarVersion::Autosar_4_3_0,
        "V50" => AutosarVersion::Autosar_00050,
        other => AutosarVersion::from_str(other).unwrap_or(AutosarVersion::LATEST),
    }
}

pub fn mask_names(mask: u32) -> Vec<Value> {
    VERSIONS
        .iter()
        .filter(|v| v.compatible(mask))
        .map(|v| json!(vname(*v)))
        .collect()
}

pub const WHITELIST: &[&str] = &[
    "AUTOSAR",
    "AR-PACKAGES",
    "AR-PACKAGE",
    "SHORT-NAME",
    "SHORT-NAME-FRAGMENTS",
    "CATEGORY",
    "DESC",
    "L-2",
    "ELEMENTS",
    "SYSTEM-SIGNAL",
    "DYNAMIC-LENGTH",
    "I-SIGNAL",
    "DATA-TYPE-POLICY",
    "LENGTH",
    "SYSTEM-SIGNAL-REF",
    "SYSTEM",
    "FIBEX-ELEMENTS",
    "FIBEX-ELEMENT-REF-CONDITIONAL",
    "FIBEX-ELEMENT-REF",
    "MAPPINGS",
    "SYSTEM-MAPPING",
    "ECUC-MODULE-CONFIGURATION-VALUES",
    "CONTAINERS",
    "ECUC-CONTAINER-VALUE",
    "DEFINITION-REF",
    "PARAMETER-VALUES",
    "ECUC-NUMERICAL-PARAM-VALUE",
    "ECUC-TEXTUAL-PARAM-VALUE",
    "VALUE",
    "INDEX",
    "SUB-CONTAINERS",
    "REFERENCE-VALUES",
    "ECUC-REFERENCE-VALUE",
    "VALUE-REF",
    "XREF-TARGET",
    "TT",
    "ADMIN-DATA",
    "LANGUAGE",
    "SDGS",
    "SDG",
    "SD",
];

fn mode_name(m: ContentMode) -> &'static str {
    match m {
        ContentMode::Sequence => "Sequence",
        ContentMode::Choice => "Choice",
        ContentMode::Bag => "Bag",
        ContentMode::Characters => "Characters",
        ContentMode::Mixed => "Mixed",
    }
}

fn mult_name(m: Option<ElementMultiplicity>) -> &'static str {
    match m {
        Some(ElementMultiplicity::ZeroOrOne) => "ZeroOrOne",
        Some(ElementMultiplicity::One) => "One",
        Some(ElementMultiplicity::Any) => "Any",
        None => "None",
    }
}

pub fn spec_summary(spec: &CharacterDataSpec) -> Value {
    match spec {
        CharacterDataSpec::Enum { items } => {
            // the full DEST enumeration has hundreds of items: keep those naming an element of the fragment, plus a few
            let keep = |it: &EnumItem, pos: usize| items.len() <= 64 || pos < 6 || WHITELIST.contains(&it.to_str()) || ["EN", "DE", "FOR-ALL"].contains(&it.to_str());
            json!({"k": "Enum", "n": items.len(),
                   "items": items.iter().enumerate().filter(|(pos, (it, _))| keep(it, *pos)).map(|(_, (it, m))| json!({"i": it.to_str(), "mask": mask_names(*m)})).collect::<Vec<_>>()})
        }
        CharacterDataSpec::Pattern { regex, max_length, .. } => {
            json!({"k": "Pattern", "regex": regex, "maxlen": max_length.map(|x| x as i64).unwrap_or(-1)})
        }
        CharacterDataSpec::String { preserve_whitespace, max_length } => {
            json!({"k": "String", "pws": preserve_whitespace, "maxlen": max_length.map(|x| x as i64).unwrap_or(-1)})
        }
        CharacterDataSpec::UnsignedInteger => json!({"k": "UInt"}),
        CharacterDataSpec::Float => json!({"k": "Float"}),
    }
}

/// kind key of an element type: the element name, made unique with the type's debug ids when one name has
/// several types inside the fragment
pub struct Fragment {
    pub kinds: BTreeMap<String, (ElementName, ElementType)>,
    pub by_type: Vec<(ElementType, String)>,
}

impl Fragment {
    pub fn key_of(&self, t: ElementType) -> Option<String> {
        self.by_type.iter().find(|(tt, _)| *tt == t).map(|(_, k)| k.clone())
    }
    pub fn type_of(&self, key: &str) -> Option<(ElementName, ElementType)> {
        self.kinds.get(key).copied()
    }
}

pub fn fragment() -> Fragment {
    // BFS from the root through whitelisted names
    let mut seen: Vec<(ElementName, ElementType)> = vec![(ElementName::Autosar, ElementType::ROOT)];
    let mut queue = VecDeque::new();
    queue.push_back(ElementType::ROOT);
    while let Some(t) = queue.pop_front() {
        for (name, ct, _mask, _named) in t.sub_element_spec_iter() {
            if WHITELIST.contains(&name.to_str()) && !seen.iter().any(|(n, tt)| *tt == ct && *n == name) {
                seen.push((name, ct));
                queue.push_back(ct);
            }
        }
    }
    let mut count: BTreeMap<&str, usize> = BTreeMap::new();
    for (n, _) in &seen {
        *count.entry(n.to_str()).or_default() += 1;
    }
    let mut kinds = BTreeMap::new();
    let mut by_type = vec![];
    let mut ord: BTreeMap<&str, usize> = BTreeMap::new();
    for (n, t) in &seen {
        let key = if count[n.to_str()] == 1 {
            n.to_str().to_string()
        } else {
            let o = ord.entry(n.to_str()).or_default();
            *o += 1;
            if *o == 1 { n.to_str().to_string() } else { format!("{}~{}", n.to_str(), *o) }
        };
        kinds.insert(key.clone(), (*n, *t));
        by_type.push((*t, key));
    }
    Fragment { kinds, by_type }
}

pub fn extract() -> Value {
    let frag = fragment();
    let mut out = Map::new();
    for (key, (name, t)) in &frag.kinds {
        let mut children = vec![];
        for (cname, ct, mask, named_mask) in t.sub_element_spec_iter() {
            let Some(ckey) = frag.by_type.iter().find(|(tt, k)| *tt == ct && frag.kinds[k].0 == cname).map(|(_, k)| k.clone()) else {
                continue;
            };
            let Some((ft, idx)) = t.find_sub_element(cname, mask) else { continue };
            if ft != ct {
                continue;
            }
            children.push(json!({
                "name": cname.to_str(),
                "kind": ckey,
                "idx": idx,
                "mask": mask_names(mask),
                "named": mask_names(named_mask),
                "mult": mult_name(t.get_sub_element_multiplicity(&idx)),
                "cmode": mode_name(t.get_sub_element_container_mode(&idx)),
            }));
        }
        // pairwise common group mode
        let mut pair = vec![];
        for a in &children {
            let mut row = vec![];
            for b in &children {
                let ia: Vec<usize> = a["idx"].as_array().unwrap().iter().map(|x| x.as_u64().unwrap() as usize).collect();
                let ib: Vec<usize> = b["idx"].as_array().unwrap().iter().map(|x| x.as_u64().unwrap() as usize).collect();
                row.push(json!(mode_name(t.find_common_group(&ia, &ib).content_mode())));
            }
            pair.push(Value::Array(row));
        }
        let attrs: Vec<Value> = t
            .attribute_spec_iter()
            .map(|(an, spec, req)| {
                let m = t.find_attribute_spec(an).map(|s| s.version).unwrap_or(0);
                json!({"name": an.to_str(), "req": req, "mask": mask_names(m), "spec": spec_summary(spec)})
            })
            .collect();
        // reference support: DEST value proposed for each named target kind; DEST values accepted by this kind as target
        let mut destfor = Map::new();
        if t.is_ref() {
            let dest_items: Vec<(EnumItem, u32)> = match t.find_attribute_spec(AttributeName::Dest).map(|s| s.spec) {
                Some(CharacterDataSpec::Enum { items }) => items.to_vec(),
                _ => vec![],
            };
            for (tkey, (tname, tt)) in &frag.kinds {
                let item = EnumItem::from_str(tname.to_str()).ok().or(t.reference_dest_value(tt));
                let (v, m) = match item {
                    Some(it) => (it.to_str().to_string(), dest_items.iter().find(|(i, _)| *i == it).map(|(_, m)| *m).unwrap_or(0)),
                    None => (String::new(), 0),
                };
                destfor.insert(tkey.clone(), json!({"v": v, "mask": mask_names(m)}));
            }
        }
        let mut refdest = vec![];
        if t.is_named() {
            let mut cand: Vec<EnumItem> = vec![];
            for (_, (_, rt)) in &frag.kinds {
                if rt.is_ref() {
                    if let Some(CharacterDataSpec::Enum { items }) = rt.find_attribute_spec(AttributeName::Dest).map(|s| s.spec) {
                        for (it, _) in *items { if !cand.contains(it) { cand.push(*it); } }
                    }
                }
            }
            for it in cand { if t.verify_reference_dest(it) { refdest.push(json!(it.to_str())); } }
        }
        out.insert(
            key.clone(),
            json!({
                "destfor": destfor,
                "refdest": refdest,
                "name": name.to_str(),
                "mode": mode_name(t.content_mode()),
                "named": t.is_named(),
                "namedmask": mask_names(t.find_sub_element(ElementName::ShortName, u32::MAX).map(|_| {
                    // versions in which the type is named
                    let mut m = 0u32;
                    for v in VERSIONS { if t.is_named_in_version(v) { m |= v as u32; } }
                    m
                }).unwrap_or(0)),
                "isref": t.is_ref(),
                "ordered": t.is_ordered(),
                "split": mask_names(t.splittable()),
                "splitany": t.splittable() != 0,
                "cdata": t.chardata_spec().map(spec_summary).unwrap_or(json!({"k": "None"})),
                "children": children,
                "pair": pair,
                "attrs": attrs,
            }),
        );
    }
    Value::Object(out)
}
