//! Seeded random histories on the real library (implementation -> specification direction, DESIGN 4.3).
//! The driver only chooses calls and arguments (biased to boundaries); every step is logged with the full
//! observation and judged later by TLC.
use crate::core::World;
use autosar_data_specification::ElementName;
use serde_json::{json, Value};
use std::io::Write;

pub struct Rng(pub u64);
impl Rng {
    pub fn next(&mut self) -> u64 {
        self.0 = self.0.wrapping_add(0x9E3779B97F4A7C15);
        let mut z = self.0;
        z = (z ^ (z >> 30)).wrapping_mul(0xBF58476D1CE4E5B9);
        z = (z ^ (z >> 27)).wrapping_mul(0x94D049BB133111EB);
        z ^ (z >> 31)
    }
    pub fn below(&mut self, n: usize) -> usize {
        if n == 0 { 0 } else { (self.next() % n as u64) as usize }
    }
    pub fn chance(&mut self, pct: u64) -> bool {
        self.next() % 100 < pct
    }
    pub fn pick<'a, T>(&mut self, v: &'a [T]) -> &'a T {
        &v[self.below(v.len())]
    }
}

const NAMES: &[&str] = &["a", "a1", "a10", "ab", "b", "s", "p", "a_1", "Com", "ComEcu", "1x"];
const ELEMS: &[&str] = &[
    "AR-PACKAGES", "ELEMENTS", "CATEGORY", "DESC", "L-2", "SHORT-NAME", "SYSTEM-SIGNAL-REF", "FIBEX-ELEMENTS", "FIBEX-ELEMENT-REF-CONDITIONAL",
    "FIBEX-ELEMENT-REF", "MAPPINGS", "DYNAMIC-LENGTH", "LENGTH", "DATA-TYPE-POLICY", "SHORT-NAME-FRAGMENTS", "ADMIN-DATA", "SDGS", "SDG", "SD",
];
const NAMED: &[&str] = &["AR-PACKAGE", "SYSTEM-SIGNAL", "I-SIGNAL", "SYSTEM", "SYSTEM-MAPPING", "XREF-TARGET"];

fn act(op: &str) -> Value {
    json!({"op": op, "m": 0, "p": 0, "c": 0, "k": "", "name": "", "pos": -1, "val": {"k": "s", "v": ""}, "an": "", "f": 0, "ver": ""})
}

fn doc(ver: &str, body: &str) -> String {
    let xsd = match ver {
        "V401" => "AUTOSAR_4-0-1.xsd",
        "V430" => "AUTOSAR_4-3-0.xsd",
        _ => "AUTOSAR_00050.xsd",
    };
    format!("<?xml version=\"1.0\" encoding=\"utf-8\"?>\n<AUTOSAR xsi:schemaLocation=\"http://autosar.org/schema/r4.0 {xsd}\" xmlns=\"http://autosar.org/schema/r4.0\" xmlns:xsi=\"http://www.w3.org/2001/XMLSchema-instance\">{body}</AUTOSAR>")
}

/// documents offered to Load: valid ones overlapping with what the histories build, and ones failing at each stage
pub fn docs() -> Vec<(String, String)> {
    let pkg = |name: &str, inner: &str| format!("<AR-PACKAGE><SHORT-NAME>{name}</SHORT-NAME>{inner}</AR-PACKAGE>");
    let sig = |name: &str| format!("<SYSTEM-SIGNAL><SHORT-NAME>{name}</SHORT-NAME></SYSTEM-SIGNAL>");
    let isig = |name: &str, r: &str| format!("<I-SIGNAL><SHORT-NAME>{name}</SHORT-NAME><SYSTEM-SIGNAL-REF DEST=\"SYSTEM-SIGNAL\">{r}</SYSTEM-SIGNAL-REF></I-SIGNAL>");
    // the catalogue of the specification (spec/core/Arxml.tla LoadDocs, rendered by TLC) comes first; the documents below are
    // used under their own names only where the catalogue has none of that name
    let mut out: Vec<(String, String)> = vec![];
    if let Ok(path) = std::env::var("VH_DOCS") {
        if let Ok(Value::Object(m)) = serde_json::from_str::<Value>(&std::fs::read_to_string(path).unwrap_or_default()) {
            for (k, v) in m {
                out.push((k, v.as_str().unwrap_or("").to_string()));
            }
        }
    }
    let own = vec![
        ("ok_a".into(), doc("V50", &format!("<AR-PACKAGES>{}</AR-PACKAGES>", pkg("a", &format!("<ELEMENTS>{}{}</ELEMENTS>", sig("s"), isig("i", "/a/s")))))),
        ("ok_b".into(), doc("V50", &format!("<AR-PACKAGES>{}{}</AR-PACKAGES>", pkg("b", &format!("<ELEMENTS>{}</ELEMENTS>", sig("t"))), pkg("a", &format!("<ELEMENTS>{}</ELEMENTS>", isig("j", "/a/s")))))),
        ("ok_old".into(), doc("V401", &format!("<AR-PACKAGES>{}</AR-PACKAGES>", pkg("p", &format!("<ELEMENTS>{}</ELEMENTS>", sig("s")))))),
        ("dangling".into(), doc("V50", &format!("<AR-PACKAGES>{}</AR-PACKAGES>", pkg("ab", &format!("<ELEMENTS>{}</ELEMENTS>", isig("k", "/a/nowhere")))))),
        // same path, different kind: overlap error after the merge
        ("overlap".into(), doc("V50", &format!("<AR-PACKAGES>{}</AR-PACKAGES>", pkg("a", "<ELEMENTS><I-SIGNAL><SHORT-NAME>s</SHORT-NAME></I-SIGNAL></ELEMENTS>")))),
        // diverges below a non-splittable element: merge conflict
        ("conflict".into(), doc("V50", &format!("<AR-PACKAGES>{}</AR-PACKAGES>", pkg("a", "<CATEGORY>zzz</CATEGORY><ELEMENTS><SYSTEM-SIGNAL><SHORT-NAME>s</SHORT-NAME><DYNAMIC-LENGTH>true</DYNAMIC-LENGTH></SYSTEM-SIGNAL></ELEMENTS>")))),
        // a child element that does not exist in the file's version: accepted by a lenient load only
        ("foreign".into(), doc("V401", &format!("<AR-PACKAGES>{}</AR-PACKAGES>", pkg("a", "<SHORT-NAME-FRAGMENTS/><ELEMENTS><SYSTEM-SIGNAL><SHORT-NAME>s</SHORT-NAME></SYSTEM-SIGNAL></ELEMENTS>")))),
        ("lexerr".into(), doc("V50", "<AR-PACKAGES><AR-PACKAGE><SHORT-NAME>a</SHORT-NAME></AR-PACKAGE><</AR-PACKAGES>")),
        ("parseerr".into(), doc("V50", "<AR-PACKAGES><AR-PACKAGE><SHORT-NAME>a</SHORT-NAME><BOGUS/></AR-PACKAGE></AR-PACKAGES>")),
        ("late_parseerr".into(), doc("V50", &format!("<AR-PACKAGES>{}<AR-PACKAGE><SHORT-NAME>1bad</SHORT-NAME></AR-PACKAGE></AR-PACKAGES>", pkg("b", "")))),
    ];
    for (k, v) in own {
        if !out.iter().any(|(n, _): &(String, String)| *n == k) {
            out.push((k, v));
        }
    }
    out
}

fn pick_node(w: &World, rng: &mut Rng) -> usize {
    let n = w.handles.len();
    if n == 0 { 0 } else { 1 + rng.below(n) }
}

fn child_names(w: &World, p: usize) -> Vec<String> {
    if p == 0 || p > w.handles.len() {
        return vec![];
    }
    w.handles[p - 1].element_type().sub_element_spec_iter().map(|(n, ..)| n.to_str().to_string()).collect()
}

/// handles whose type accepts a sub element with this name (in any version)
fn parents_for(w: &World, name: ElementName) -> Vec<usize> {
    (1..=w.handles.len()).filter(|i| w.handles[i - 1].element_type().find_sub_element(name, u32::MAX).is_some()).collect()
}

fn live(w: &World) -> Vec<usize> {
    (1..=w.handles.len()).filter(|i| w.handles[i - 1].model().is_ok()).collect()
}

fn choose(w: &World, rng: &mut Rng, docs: &[(String, String)], loadno: &mut usize) -> Value {
    let ops: &[(&str, u64)] = &[
        ("CreateSub", 14), ("CreateNamed", 16), ("Remove", 7), ("RemoveKind", 2), ("Rename", 8), ("Copy", 7), ("Move", 8), ("SetRef", 8),
        ("SetText", 6), ("RemoveText", 2), ("SetAttr", 3), ("RemoveAttr", 1), ("SetComment", 2), ("CreateFile", 2), ("RemoveFile", 1),
        ("AddToFile", 2), ("RemoveFromFile", 2), ("Load", 4), ("Duplicate", 1), ("Sort", 2),
    ];
    let total: u64 = ops.iter().map(|o| o.1).sum();
    let mut x = rng.next() % total;
    let mut op = ops[0].0;
    for (o, wgt) in ops {
        if x < *wgt {
            op = o;
            break;
        }
        x -= wgt;
    }
    let mut a = act(op);
    let lv = live(w);
    // mostly live handles, sometimes any (detached, foreign)
    let mut p = if !lv.is_empty() && rng.chance(88) { *rng.pick(&lv) } else { pick_node(w, rng) };
    let c = if !lv.is_empty() && rng.chance(88) { *rng.pick(&lv) } else { pick_node(w, rng) };
    if matches!(op, "CreateSub" | "CreateNamed") && rng.chance(80) {
        // a parent that can have the kind of children this call creates
        let want: &[&str] = if op == "CreateNamed" { NAMED } else { ELEMS };
        let cand: Vec<usize> = lv.iter().copied().filter(|i| child_names(w, *i).iter().any(|n| want.contains(&n.as_str()))).collect();
        if !cand.is_empty() {
            p = *rng.pick(&cand);
        }
    }
    if matches!(op, "Copy" | "Move") && c >= 1 && rng.chance(75) {
        let cand = parents_for(w, w.handles[c - 1].element_name());
        let cand: Vec<usize> = cand.into_iter().filter(|i| lv.contains(i)).collect();
        if !cand.is_empty() {
            p = *rng.pick(&cand);
        }
    }
    if op == "Rename" && rng.chance(85) {
        let idents: Vec<usize> = lv.iter().copied().filter(|i| w.handles[i - 1].is_identifiable()).collect();
        if !idents.is_empty() {
            p = *rng.pick(&idents);
        }
    }
    if matches!(op, "SetText" | "RemoveText") && rng.chance(80) {
        let cds: Vec<usize> = lv.iter().copied().filter(|i| w.handles[i - 1].content_type() == autosar_data::ContentType::CharacterData).collect();
        if !cds.is_empty() {
            p = *rng.pick(&cds);
        }
    }
    a["p"] = json!(p);
    match op {
        "CreateSub" | "RemoveKind" => {
            let cn = child_names(w, p);
            let k = if !cn.is_empty() && rng.chance(75) {
                let cand: Vec<&String> = cn.iter().filter(|n| ELEMS.contains(&n.as_str()) || NAMED.contains(&n.as_str())).collect();
                if cand.is_empty() { rng.pick(ELEMS).to_string() } else { (*rng.pick(&cand)).clone() }
            } else {
                rng.pick(ELEMS).to_string()
            };
            a["k"] = json!(k);
            if op == "CreateSub" && rng.chance(30) {
                a["pos"] = json!(rng.below(4) as i64);
            }
        }
        "CreateNamed" => {
            let cn = child_names(w, p);
            let cand: Vec<&String> = cn.iter().filter(|n| NAMED.contains(&n.as_str())).collect();
            let k = if !cand.is_empty() && rng.chance(85) { (*rng.pick(&cand)).clone() } else { rng.pick(NAMED).to_string() };
            a["k"] = json!(k);
            a["name"] = json!(*rng.pick(NAMES));
            if rng.chance(25) {
                a["pos"] = json!(rng.below(4) as i64);
            }
        }
        "Remove" => {
            // mostly a real child
            if p >= 1 && rng.chance(80) {
                let subs: Vec<_> = w.handles[p - 1].sub_elements().collect();
                if !subs.is_empty() {
                    let s = rng.pick(&subs);
                    a["c"] = json!(w.idmap.get(s).copied().unwrap_or(c));
                } else {
                    a["c"] = json!(c);
                }
            } else {
                a["c"] = json!(c);
            }
        }
        "Rename" => {
            a["name"] = json!(if rng.chance(4) { "" } else { *rng.pick(NAMES) });
        }
        "Copy" | "Move" => {
            a["c"] = json!(c);
            if rng.chance(25) {
                a["pos"] = json!(rng.below(4) as i64);
            }
        }
        "SetRef" => {
            // prefer reference elements as p
            let refs: Vec<usize> = (1..=w.handles.len()).filter(|i| w.handles[i - 1].is_reference()).collect();
            if !refs.is_empty() && rng.chance(85) {
                a["p"] = json!(*rng.pick(&refs));
            }
            // mostly an identifiable target
            let idents: Vec<usize> = lv.iter().copied().filter(|i| w.handles[i - 1].is_identifiable()).collect();
            let mut tgt = if !idents.is_empty() && rng.chance(85) { *rng.pick(&idents) } else { c };
            // often a target of the kind the reference is meant for (X-REF -> X)
            if let Some(pe) = a["p"].as_u64().and_then(|i| w.handles.get(i as usize - 1)) {
                let want = pe.element_name().to_str().trim_end_matches("-REF").to_string();
                let fit: Vec<usize> = idents.iter().copied().filter(|i| w.handles[i - 1].element_name().to_str() == want).collect();
                if !fit.is_empty() && rng.chance(70) {
                    tgt = *rng.pick(&fit);
                }
            }
            a["c"] = json!(tgt);
        }
        "SetText" => {
            let e = if p >= 1 { Some(w.handles[p - 1].clone()) } else { None };
            let is_ref = e.as_ref().map(|e| e.is_reference()).unwrap_or(false);
            let is_sn = e.as_ref().map(|e| e.element_name() == ElementName::ShortName).unwrap_or(false);
            a["val"] = if is_ref {
                let n1 = *rng.pick(NAMES);
                let n2 = *rng.pick(NAMES);
                if rng.chance(50) { json!({"k": "p", "v": [n1]}) } else { json!({"k": "p", "v": [n1, n2]}) }
            } else if is_sn {
                json!({"k": "s", "v": *rng.pick(NAMES)})
            } else {
                // a value that fits the element (the specification module does not model the individual patterns)
                let en = e.as_ref().map(|e| e.element_name().to_str()).unwrap_or("");
                match en {
                    "DATA-TYPE-POLICY" => json!({"k": "e", "v": *rng.pick(&["LEGACY", "OVERRIDE", "TRANSFORMING-I-SIGNAL", "EN"])}),
                    "DYNAMIC-LENGTH" => json!({"k": "s", "v": *rng.pick(&["true", "false"])}),
                    "LENGTH" | "INDEX" => json!({"k": "s", "v": *rng.pick(&["7", "8"])}),
                    "CATEGORY" | "SD" => json!({"k": "s", "v": *rng.pick(&["x", "y"])}),
                    _ => json!({"k": "s", "v": "x"}),
                }
            };
        }
        "SetAttr" | "RemoveAttr" => {
            let (an, v) = *rng.pick(&[("UUID", "u1"), ("DEST", "SYSTEM-SIGNAL"), ("DEST", "I-SIGNAL"), ("NAME-PATTERN", "x"), ("L", "EN"), ("S", "x")]);
            a["an"] = json!(an);
            a["val"] = if an == "DEST" || an == "L" { json!({"k": "e", "v": v}) } else { json!({"k": "s", "v": v}) };
        }
        "SetComment" => {
            a["name"] = json!(*rng.pick(&["", "cmt", "c--d"]));
        }
        "CreateFile" => {
            a["m"] = json!(1 + rng.below(w.models.len()));
            a["name"] = json!(*rng.pick(&["f1", "f2", "f3", "g1"]));
            a["ver"] = json!(*rng.pick(&["V50", "V50", "V401"]));
            a["p"] = json!(0);
        }
        "RemoveFile" | "AddToFile" | "RemoveFromFile" => {
            a["f"] = json!(if w.files.is_empty() { 1 } else { 1 + rng.below(w.files.len()) });
            if op == "RemoveFile" {
                a["m"] = json!(1 + rng.below(w.models.len()));
                a["p"] = json!(0);
            }
        }
        "Load" => {
            let (name, text) = rng.pick(docs);
            *loadno += 1;
            a["m"] = json!(1 + rng.below(w.models.len().min(2)));
            a["name"] = json!(if rng.chance(10) { "f1".to_string() } else { format!("{name}_{loadno}") });
            let _ = text;
            a["doc"] = json!(name);
            a["k"] = json!(name);
            let strict = if name == "foreign" { false } else { rng.chance(70) };
            a["strict"] = json!(strict);
            a["ver"] = json!(if strict { "" } else { "lenient" });
            a["p"] = json!(0);
        }
        "Duplicate" => {
            a["m"] = json!(1 + rng.below(w.models.len()));
            a["p"] = json!(0);
        }
        _ => {}
    }
    a
}

/// `vh drive`: n histories of `len` steps each; each starts with a small random prefix that creates files
pub fn drive(out: &str, seed: u64, n: usize, len: usize, ser_every: usize) -> Value {
    let mut f = std::io::BufWriter::new(std::fs::File::create(out).unwrap());
    let docs = docs();
    let mut steps = 0usize;
    let mut opcount: std::collections::BTreeMap<String, (usize, usize)> = Default::default();
    for hi in 0..n {
        let mut rng = Rng(seed.wrapping_mul(1_000_003).wrapping_add(hi as u64));
        let mut w = World::new(2);
        w.probe_names = NAMES.iter().map(|s| s.to_string()).collect();
        let mut loadno = 0;
        // prefix: files so that creation is possible
        let mut pre = vec![];
        let mut a = act("CreateFile");
        a["m"] = json!(1);
        a["name"] = json!("f1");
        a["ver"] = json!(if rng.chance(80) { "V50" } else { "V401" });
        pre.push(a);
        let mut a = act("CreateFile");
        a["m"] = json!(2);
        a["name"] = json!("g1");
        a["ver"] = json!(if rng.chance(70) { "V50" } else { "V401" });
        pre.push(a);
        if rng.chance(60) {
            let mut a = act("Load");
            a["m"] = json!(1);
            a["name"] = json!("seed.arxml");
            let d = *rng.pick(&["ok_a", "ok_b", "pb", "pe"]);
            a["doc"] = json!(d);
            a["k"] = json!(d);
            a["strict"] = json!(true);
            if rng.chance(50) {
                pre.remove(0);
            }
            pre.push(a);
        }
        for a in &pre {
            w.exec(a);
        }
        w.want_ser = ser_every > 0 && hi % ser_every == 0;
        let reset = json!({"ev": {"op": "reset"}, "res": {"t": "ok", "v": 0}, "obs": w.observe(true), "h": [], "fix": pre, "seed": seed, "hist": hi});
        writeln!(f, "{reset}").unwrap();
        for si in 0..len {
            let a = choose(&w, &mut rng, &docs, &mut loadno);
            let res = w.exec(&a);
            // serialised text + reload on every step of every ser_every-th history (all steps or none: observations of one
            // history must have the same shape)
            let _ = si;
            w.want_ser = ser_every > 0 && hi % ser_every == 0;
            let step = json!({"ev": a, "res": res, "obs": w.observe(true)});
            writeln!(f, "{step}").unwrap();
            steps += 1;
            let e = opcount.entry(a["op"].as_str().unwrap().to_string()).or_default();
            e.0 += 1;
            if res["t"] == "ok" {
                e.1 += 1;
            }
            if w.poisoned || w.handles.len() > 90 || w.models.len() > 3 {
                break;
            }
        }
    }
    json!({"histories": n, "steps": steps, "ops": opcount.iter().map(|(k, v)| (k.clone(), json!([v.0, v.1]))).collect::<serde_json::Map<_, _>>()})
}
