#![allow(unused_must_use)]
//! E2: lock programs and scheduled concurrent runs.
//!  * `record`: every operation of the catalogue runs alone on the fixture with a recording observer: its lock program
//!    (sequence of acquisition attempts / releases with lock label, mode, kind, source line).
//!  * `sched`: two (or three) operations run on real threads; an observer gates every lock event so that the threads
//!    follow a given schedule (sequence of thread numbers, one entry per lock event) and then run freely.
//!    A run in which no thread makes progress while all unfinished threads sit in an untimed acquisition is a deadlock.
//!  * sequential oracle runs of the same operations on fresh fixtures (the library itself is the oracle for C16).
use crate::core::text_hash;
use autosar_data::verif_lock::{set_observer, Kind, LockClass, LockObserver, Mode};
use autosar_data::*;
use serde_json::{json, Value};
use std::cell::Cell;
use std::collections::HashMap;
use std::io::{BufRead, Write};
use std::panic::Location;
use std::sync::{Arc, Condvar, Mutex};
use std::time::{Duration, Instant};

thread_local! { static TID: Cell<usize> = const { Cell::new(0) }; }

// ------------------------------------------------------------------------------------------------ fixture
pub struct Fixture {
    pub model: AutosarModel,
    pub file: ArxmlFile,
    pub file2: ArxmlFile,
    pub h: HashMap<&'static str, Element>,
}

const FIX: &str = r#"<?xml version="1.0" encoding="utf-8"?>
<AUTOSAR xsi:schemaLocation="http://autosar.org/schema/r4.0 AUTOSAR_00050.xsd" xmlns="http://autosar.org/schema/r4.0" xmlns:xsi="http://www.w3.org/2001/XMLSchema-instance">
<AR-PACKAGES><AR-PACKAGE><SHORT-NAME>a</SHORT-NAME><ELEMENTS>
<SYSTEM-SIGNAL><SHORT-NAME>s</SHORT-NAME></SYSTEM-SIGNAL>
<I-SIGNAL><SHORT-NAME>i</SHORT-NAME><SYSTEM-SIGNAL-REF DEST="SYSTEM-SIGNAL">/a/s</SYSTEM-SIGNAL-REF></I-SIGNAL>
<SYSTEM-SIGNAL><SHORT-NAME>t</SHORT-NAME></SYSTEM-SIGNAL>
</ELEMENTS><AR-PACKAGES><AR-PACKAGE><SHORT-NAME>p</SHORT-NAME><ELEMENTS><SYSTEM-SIGNAL><SHORT-NAME>u</SHORT-NAME></SYSTEM-SIGNAL></ELEMENTS></AR-PACKAGE></AR-PACKAGES>
</AR-PACKAGE><AR-PACKAGE><SHORT-NAME>b</SHORT-NAME></AR-PACKAGE></AR-PACKAGES></AUTOSAR>"#;

pub const DOC2: &str = r#"<?xml version="1.0" encoding="utf-8"?>
<AUTOSAR xsi:schemaLocation="http://autosar.org/schema/r4.0 AUTOSAR_00050.xsd" xmlns="http://autosar.org/schema/r4.0" xmlns:xsi="http://www.w3.org/2001/XMLSchema-instance">
<AR-PACKAGES><AR-PACKAGE><SHORT-NAME>c</SHORT-NAME><ELEMENTS><SYSTEM-SIGNAL><SHORT-NAME>v</SHORT-NAME></SYSTEM-SIGNAL></ELEMENTS></AR-PACKAGE></AR-PACKAGES></AUTOSAR>"#;
pub const DOC3: &str = r#"<?xml version="1.0" encoding="utf-8"?>
<AUTOSAR xsi:schemaLocation="http://autosar.org/schema/r4.0 AUTOSAR_4-3-0.xsd" xmlns="http://autosar.org/schema/r4.0" xmlns:xsi="http://www.w3.org/2001/XMLSchema-instance">
<AR-PACKAGES><AR-PACKAGE><SHORT-NAME>d</SHORT-NAME></AR-PACKAGE></AR-PACKAGES></AUTOSAR>"#;

pub fn fixture() -> Fixture {
    let model = AutosarModel::new();
    let (file, _) = model.load_buffer(FIX.as_bytes(), "f1", true).unwrap();
    let file2 = model.create_file("f2", AutosarVersion::Autosar_4_3_0).unwrap();
    let mut h = HashMap::new();
    let g = |p: &str| model.get_element_by_path(p).unwrap();
    h.insert("root", model.root_element());
    h.insert("pkgs", model.root_element().get_sub_element(ElementName::ArPackages).unwrap());
    h.insert("a", g("/a"));
    h.insert("b", g("/b"));
    h.insert("p", g("/a/p"));
    h.insert("s", g("/a/s"));
    h.insert("t", g("/a/t"));
    h.insert("i", g("/a/i"));
    h.insert("u", g("/a/p/u"));
    h.insert("els", g("/a").get_sub_element(ElementName::Elements).unwrap());
    h.insert("ref", g("/a/i").get_sub_element(ElementName::SystemSignalRef).unwrap());
    h.insert("sn_s", g("/a/s").get_sub_element(ElementName::ShortName).unwrap());
    Fixture { model, file, file2, h }
}

fn rc<T>(r: Result<T, AutosarDataError>) -> String {
    match r {
        Ok(_) => "ok".into(),
        Err(e) => format!("{e:?}").split(|c: char| !c.is_alphanumeric()).next().unwrap_or("err").to_string(),
    }
}

/// the operation catalogue: name -> closure over the fixture, returning a result class
pub fn ops() -> Vec<(&'static str, fn(&Fixture) -> String)> {
    vec![
        ("serialize_f1", |f| rc(f.file.serialize().map(|t| t.len()))),
        ("serialize_f2", |f| rc(f.file2.serialize().map(|t| t.len()))),
        ("serialize_elem_a", |f| { f.h["a"].serialize(); "ok".into() }),
        ("path_u", |f| rc(f.h["u"].path())),
        ("model_dfs", |f| { f.model.elements_dfs().count(); "ok".into() }),
        ("check_references", |f| { f.model.check_references(); "ok".into() }),
        ("lookup_s", |f| { f.model.get_element_by_path("/a/s"); "ok".into() }),
        ("references_to_s", |f| { f.model.get_references_to("/a/s"); "ok".into() }),
        ("xml_path_u", |f| { f.h["u"].xml_path(); "ok".into() }),
        ("list_valid_a", |f| { f.h["a"].list_valid_sub_elements(); "ok".into() }),
        ("ref_target", |f| rc(f.h["ref"].get_reference_target())),
        ("file_membership_u", |f| rc(f.h["u"].file_membership())),
        ("sort_model", |f| { f.model.sort(); "ok".into() }),
        ("create_in_els", |f| rc(f.h["els"].create_named_sub_element(ElementName::SystemSignal, "n"))),
        ("create_in_els_same", |f| rc(f.h["els"].create_named_sub_element(ElementName::SystemSignal, "n"))),
        ("create_cat_a", |f| rc(f.h["a"].create_sub_element(ElementName::Category))),
        ("get_or_create_cat_a", |f| rc(f.h["a"].get_or_create_sub_element(ElementName::Category))),
        ("remove_t", |f| rc(f.h["els"].remove_sub_element(f.h["t"].clone()))),
        ("remove_p", |f| match f.h["p"].parent() {
            Ok(Some(pp)) => rc(pp.remove_sub_element(f.h["p"].clone())),
            Ok(None) => "noparent".into(),
            Err(e) => rc::<()>(Err(e)),
        }),
        ("rename_a", |f| rc(f.h["a"].set_item_name("a2"))),
        ("rename_s", |f| rc(f.h["s"].set_item_name("s2"))),
        ("move_s_to_b", |f| rc(f.h["b"].get_or_create_sub_element(ElementName::Elements).and_then(|e| e.move_element_here(&f.h["s"])))),
        ("move_u_to_els", |f| rc(f.h["els"].move_element_here(&f.h["u"]))),
        ("copy_s_to_p", |f| match f.h["p"].get_sub_element(ElementName::Elements) {
            Some(e) => rc(e.create_copied_sub_element(&f.h["s"])),
            None => "gone".into(),
        }),
        ("set_text_sn_s", |f| rc(f.h["sn_s"].set_character_data("s3"))),
        ("set_comment_a", |f| { f.h["a"].set_comment(Some("c".into())); "ok".into() }),
        ("set_attr_a", |f| rc(f.h["a"].set_attribute_string(AttributeName::Uuid, "u1"))),
        ("set_ref_t", |f| rc(f.h["ref"].set_reference_target(&f.h["t"]))),
        ("set_text_ref", |f| rc(f.h["ref"].set_character_data("/a/t"))),
        ("remove_attr_ref", |f| { f.h["ref"].remove_attribute(AttributeName::Dest); "ok".into() }),
        ("create_file", |f| rc(f.model.create_file("f3", AutosarVersion::Autosar_00050))),
        ("remove_file2", |f| { f.model.remove_file(&f.file2); "ok".into() }),
        ("load_doc2", |f| rc(f.model.load_buffer(DOC2.as_bytes(), "l2", true))),
        ("load_doc3", |f| rc(f.model.load_buffer(DOC3.as_bytes(), "l3", true))),
        ("add_p_to_f2", |f| rc(f.h["p"].add_to_file(&f.file2))),
        ("duplicate", |f| rc(f.model.duplicate())),
        ("create_pkg", |f| rc(f.h["pkgs"].create_named_sub_element(ElementName::ArPackage, "q"))),
        ("remove_pkg_b", |f| rc(f.h["pkgs"].remove_sub_element(f.h["b"].clone()))),
        ("set_filename_f1", |f| rc(f.file.set_filename("g1"))),
        ("set_filename_f2", |f| rc(f.file2.set_filename("g2"))),
        ("serialize_files", |f| { f.model.serialize_files().len(); "ok".into() }),
        ("cmp_s_t", |f| { let _ = f.h["s"].cmp(&f.h["t"]); "ok".into() }),
        ("version_compat", |f| { let _ = f.file.check_version_compatibility(AutosarVersion::Autosar_4_3_0); "ok".into() }),
    ]
}

fn find_op(name: &str) -> Option<fn(&Fixture) -> String> {
    ops().into_iter().find(|(n, _)| *n == name).map(|(_, f)| f)
}

/// canonical description of the final state of the fixture (no node identities)
pub fn canon(f: &Fixture) -> Value {
    let mut files: Vec<(String, String)> = f.model.files().map(|x| (x.filename().to_string_lossy().to_string(), x.serialize().map(|t| text_hash(&t)).unwrap_or("EMPTY".into()))).collect();
    files.sort();
    let mut idx: Vec<String> = f.model.identifiable_elements().map(|(p, _)| p).collect();
    idx.sort();
    let mut keys = f.model.verif_reference_origin_keys();
    keys.sort();
    let refs: Vec<Value> = keys.iter().map(|k| json!([k, f.model.get_references_to(k).iter().filter(|w| w.upgrade().is_some()).count()])).collect();
    json!({"files": files, "idx": idx, "refs": refs, "tree": text_hash(&f.model.root_element().serialize()), "broken": f.model.check_references().len()})
}

// ------------------------------------------------------------------------------------------------ labels
fn labels(f: &Fixture) -> HashMap<usize, String> {
    let mut m = HashMap::new();
    m.insert(f.model.verif_lock_id(), "M".to_string());
    m.insert(f.file.verif_lock_id(), "F1".to_string());
    m.insert(f.file2.verif_lock_id(), "F2".to_string());
    // every element of the fixture: labelled by its position in the document
    for (k, (_, e)) in f.model.elements_dfs().enumerate() {
        m.insert(e.verif_lock_id(), format!("E{k}"));
    }
    m
}

// ------------------------------------------------------------------------------------------------ recording observer
#[derive(Default)]
struct Recorder {
    events: Mutex<Vec<Value>>,
}
impl LockObserver for Recorder {
    fn before(&self, _l: usize, _c: LockClass, _m: Mode, _k: Kind, _s: &'static Location<'static>) {}
    fn after(&self, lock: usize, class: LockClass, mode: Mode, kind: Kind, acquired: bool, site: &'static Location<'static>) {
        self.events.lock().unwrap().push(json!({"a": "acq", "l": lock, "c": class, "m": if mode == Mode::Read { "R" } else { "W" },
            "k": match kind { Kind::Block => "block", Kind::Try => "try", Kind::Timed => "timed" }, "ok": acquired,
            "site": format!("{}:{}", site.file().rsplit('/').next().unwrap_or(""), site.line()), "t": TID.with(|t| t.get())}));
    }
    fn releasing(&self, _l: usize, _c: LockClass, _m: Mode) {}
    fn released(&self, lock: usize, class: LockClass, mode: Mode) {
        self.events.lock().unwrap().push(json!({"a": "rel", "l": lock, "c": class, "m": if mode == Mode::Read { "R" } else { "W" }, "t": TID.with(|t| t.get())}));
    }
}

/// `vh conc-record`: lock program of every catalogue operation (run alone on a fresh fixture)
pub fn record(output: &str) -> Value {
    let mut out = std::io::BufWriter::new(std::fs::File::create(output).unwrap());
    let mut n = 0;
    for (name, op) in ops() {
        let f = fixture();
        let lab = labels(&f);
        let rec = Arc::new(Recorder::default());
        set_observer(Some(rec.clone()));
        let res = op(&f);
        set_observer(None);
        let mut fresh = 0;
        let mut local: HashMap<usize, String> = HashMap::new();
        let evs: Vec<Value> = rec.events.lock().unwrap().iter().map(|e| {
            let id = e["l"].as_u64().unwrap() as usize;
            let label = lab.get(&id).cloned().unwrap_or_else(|| local.entry(id).or_insert_with(|| { fresh += 1; format!("N{fresh}") }).clone());
            let mut e = e.clone();
            e["l"] = json!(label);
            e
        }).collect();
        writeln!(out, "{}", json!({"op": name, "res": res, "prog": evs})).unwrap();
        n += 1;
    }
    json!({"ops": n})
}

// ------------------------------------------------------------------------------------------------ scheduling observer
struct SchedState {
    schedule: Vec<usize>,
    pos: usize,
    /// per thread: (what it is doing, site, since when): "gate", "attempt-block", "attempt-timed", "run", "done"
    status: Vec<(String, String, Instant)>,
    in_attempt: Option<usize>,
    log: Vec<Value>,
    progress: Instant,
}
struct Scheduler {
    st: Mutex<SchedState>,
    cv: Condvar,
    /// lock ids whose events are scheduling points (None: all)
    gated: Option<std::collections::HashSet<usize>>,
}
impl Scheduler {
    fn gate(&self, what: &str, site: String, kind: &str) {
        let tid = TID.with(|t| t.get());
        if tid == 0 {
            return;
        }
        let mut st = self.st.lock().unwrap();
        st.status[tid - 1] = ("gate".into(), site.clone(), Instant::now());
        loop {
            // the previous attempt of another thread must have completed, or be known to be blocked
            if let Some(other) = st.in_attempt {
                let (w, _, since) = &st.status[other - 1];
                let blocked_long = w == "attempt-block" && since.elapsed() > Duration::from_millis(60);
                if other != tid && !blocked_long && (w.starts_with("attempt")) {
                    let (g, _) = self.cv.wait_timeout(st, Duration::from_millis(5)).unwrap();
                    st = g;
                    continue;
                }
            }
            let my_turn = st.pos >= st.schedule.len() || st.schedule[st.pos] == tid
                // the scheduled thread is finished or blocked for good: skip its entries
                // ... or has not come to a scheduling point for a long time (it waits for a lock that is not gated)
                || { let s = st.schedule[st.pos]; let (w, _, since) = &st.status[s - 1];
                     w == "done" || (w == "attempt-block" && since.elapsed() > Duration::from_millis(60)) || (w == "run" && since.elapsed() > Duration::from_millis(150)) };
            if my_turn {
                if st.pos < st.schedule.len() && st.schedule[st.pos] != tid {
                    // entries of threads that cannot move are dropped
                    while st.pos < st.schedule.len() && st.schedule[st.pos] != tid {
                        let s = st.schedule[st.pos];
                        let (w, _, _) = &st.status[s - 1];
                        if w == "done" || w == "attempt-block" || w == "run" { st.pos += 1 } else { break }
                    }
                    if st.pos < st.schedule.len() && st.schedule[st.pos] != tid {
                        let (g, _) = self.cv.wait_timeout(st, Duration::from_millis(5)).unwrap();
                        st = g;
                        continue;
                    }
                }
                if st.pos < st.schedule.len() {
                    st.pos += 1;
                }
                let w = if what == "rel" { "run".to_string() } else { format!("attempt-{kind}") };
                st.status[tid - 1] = (w, site, Instant::now());
                if what != "rel" {
                    st.in_attempt = Some(tid);
                }
                st.progress = Instant::now();
                self.cv.notify_all();
                return;
            }
            let (g, _) = self.cv.wait_timeout(st, Duration::from_millis(5)).unwrap();
            st = g;
        }
    }
}
impl LockObserver for Scheduler {
    fn before(&self, lock: usize, _class: LockClass, _mode: Mode, kind: Kind, site: &'static Location<'static>) {
        if self.gated.as_ref().is_some_and(|g| !g.contains(&lock)) {
            return;
        }
        let k = match kind { Kind::Block => "block", Kind::Try => "try", Kind::Timed => "timed" };
        self.gate("acq", format!("{}:{}", site.file().rsplit('/').next().unwrap_or(""), site.line()), k);
    }
    fn after(&self, lock: usize, _class: LockClass, mode: Mode, kind: Kind, acquired: bool, site: &'static Location<'static>) {
        let tid = TID.with(|t| t.get());
        if tid == 0 || self.gated.as_ref().is_some_and(|g| !g.contains(&lock)) {
            return;
        }
        let mut st = self.st.lock().unwrap();
        st.status[tid - 1] = ("run".into(), String::new(), Instant::now());
        if st.in_attempt == Some(tid) {
            st.in_attempt = None;
        }
        st.progress = Instant::now();
        let line = format!("{}:{}", site.file().rsplit('/').next().unwrap_or(""), site.line());
        st.log.push(json!({"t": tid, "a": "acq", "l": lock, "m": if mode == Mode::Read { "R" } else { "W" }, "k": format!("{kind:?}"), "ok": acquired, "site": line}));
        self.cv.notify_all();
    }
    fn releasing(&self, lock: usize, _class: LockClass, _mode: Mode) {
        if self.gated.as_ref().is_some_and(|g| !g.contains(&lock)) {
            return;
        }
        self.gate("rel", String::new(), "");
    }
    fn released(&self, lock: usize, _class: LockClass, mode: Mode) {
        let tid = TID.with(|t| t.get());
        if tid == 0 || self.gated.as_ref().is_some_and(|g| !g.contains(&lock)) {
            return;
        }
        let mut st = self.st.lock().unwrap();
        st.progress = Instant::now();
        st.log.push(json!({"t": tid, "a": "rel", "l": lock, "m": if mode == Mode::Read { "R" } else { "W" }}));
        self.cv.notify_all();
    }
}

/// run the named operations concurrently under the schedule; returns results, deadlock verdict, final canonical state
pub fn run_scheduled(names: &[String], schedule: &[usize], gate_labels: Option<&Vec<String>>) -> Value {
    let f = Arc::new(fixture());
    let n = names.len();
    let gated = gate_labels.map(|gl| labels(&f).into_iter().filter(|(_, l)| gl.contains(l)).map(|(id, _)| id).collect::<std::collections::HashSet<usize>>());
    let sched = Arc::new(Scheduler {
        st: Mutex::new(SchedState { schedule: schedule.to_vec(), pos: 0, status: vec![("run".into(), String::new(), Instant::now()); n], in_attempt: None, log: vec![], progress: Instant::now() }),
        cv: Condvar::new(),
        gated,
    });
    set_observer(Some(sched.clone()));
    let results: Arc<Mutex<Vec<Option<String>>>> = Arc::new(Mutex::new(vec![None; n]));
    let mut handles = vec![];
    for (i, name) in names.iter().enumerate() {
        let op = find_op(name).expect("operation name");
        let (f, sched, results) = (f.clone(), sched.clone(), results.clone());
        handles.push(std::thread::Builder::new().stack_size(16 << 20).spawn(move || {
            TID.with(|t| t.set(i + 1));
            let r = std::panic::catch_unwind(std::panic::AssertUnwindSafe(|| op(&f))).unwrap_or_else(|_| "panic".into());
            results.lock().unwrap()[i] = Some(r);
            let mut st = sched.st.lock().unwrap();
            st.status[i] = ("done".into(), String::new(), Instant::now());
            if st.in_attempt == Some(i + 1) {
                st.in_attempt = None;
            }
            st.progress = Instant::now();
            sched.cv.notify_all();
        }).unwrap());
    }
    // watchdog: all unfinished threads sit in an untimed acquisition and nothing moved for a while => deadlock
    let t0 = Instant::now();
    let mut deadlock = false;
    let mut stalled = false;
    let mut blocked: Vec<Value> = vec![];
    loop {
        std::thread::sleep(Duration::from_millis(10));
        let st = sched.st.lock().unwrap();
        let all_done = st.status.iter().all(|s| s.0 == "done");
        if all_done {
            break;
        }
        let unfinished: Vec<usize> = (0..n).filter(|i| st.status[*i].0 != "done").collect();
        let all_blocked = unfinished.iter().all(|i| st.status[*i].0 == "attempt-block" && st.status[*i].2.elapsed() > Duration::from_millis(1500));
        if all_blocked && st.progress.elapsed() > Duration::from_millis(1500) {
            deadlock = true;
            blocked = unfinished.iter().map(|i| json!({"thread": i + 1, "op": names[*i], "blocked_at": st.status[*i].1})).collect();
            break;
        }
        if t0.elapsed() > Duration::from_secs(20) {
            // not a verdict about the library: the run did not finish and is not a recognisable deadlock either
            stalled = true;
            blocked = unfinished.iter().map(|i| json!({"thread": i + 1, "op": names[*i], "state": st.status[*i].0, "at": st.status[*i].1})).collect();
            break;
        }
    }
    set_observer(None);
    if stalled {
        let res: Vec<Value> = results.lock().unwrap().iter().map(|r| json!(r.clone().unwrap_or("unfinished".into()))).collect();
        return json!({"ops": names, "schedule": schedule, "deadlock": false, "stalled": true, "blocked": blocked, "res": res, "canon": Value::Null, "steps": 0});
    }
    if deadlock {
        // the blocked threads are leaked; nothing of the fixture can be inspected
        let res: Vec<Value> = results.lock().unwrap().iter().map(|r| json!(r.clone().unwrap_or("blocked".into()))).collect();
        return json!({"ops": names, "schedule": schedule, "deadlock": true, "blocked": blocked, "res": res, "canon": Value::Null, "steps": sched.st.lock().unwrap().log.len()});
    }
    for h in handles {
        let _ = h.join();
    }
    let res: Vec<Value> = results.lock().unwrap().iter().map(|r| json!(r.clone().unwrap_or("?".into()))).collect();
    let steps = sched.st.lock().unwrap().log.len();
    json!({"ops": names, "schedule": schedule, "deadlock": false, "blocked": [], "res": res, "canon": canon(&f), "steps": steps})
}

/// sequential execution of the operations in the given order on a fresh fixture
pub fn run_sequential(names: &[String]) -> Value {
    let f = fixture();
    let res: Vec<Value> = names
        .iter()
        .map(|n| json!(find_op(n).map(|op| std::panic::catch_unwind(std::panic::AssertUnwindSafe(|| op(&f))).unwrap_or_else(|_| "panic".into())).unwrap_or("?".into())))
        .collect();
    json!({"order": names, "res": res, "canon": canon(&f)})
}

/// `vh conc-sched`: input lines {ops: [names], schedule: [thread numbers]}; output: concurrent run + all sequential orders
pub fn sched(input: &str, output: &str) -> Value {
    let fin = std::fs::File::open(input).unwrap();
    let mut out = std::io::BufWriter::new(std::fs::File::create(output).unwrap());
    let (mut n, mut dl) = (0usize, 0usize);
    for l in std::io::BufReader::new(fin).lines() {
        let l = l.unwrap();
        let Ok(c) = serde_json::from_str::<Value>(&l) else { continue };
        let names: Vec<String> = c["ops"].as_array().unwrap().iter().map(|x| x.as_str().unwrap().to_string()).collect();
        let schedule: Vec<usize> = c["schedule"].as_array().map(|a| a.iter().map(|x| x.as_u64().unwrap() as usize).collect()).unwrap_or_default();
        let gl: Option<Vec<String>> = c["gate"].as_array().map(|a| a.iter().map(|x| x.as_str().unwrap_or("").to_string()).collect());
        let conc = run_scheduled(&names, &schedule, gl.as_ref());
        if conc["deadlock"] == true {
            dl += 1;
        }
        // sequential oracle: every order of every non-empty subset (an operation that reported ParentElementLocked is dropped)
        let mut seqs = vec![];
        {
            let mut r = run_sequential(&[]);
            r["who"] = json!([]);
            seqs.push(r);
        }
        let idx: Vec<usize> = (0..names.len()).collect();
        let mut subsets: Vec<Vec<usize>> = vec![];
        for mask in 1..(1u32 << names.len()) {
            subsets.push(idx.iter().copied().filter(|i| mask & (1 << i) != 0).collect());
        }
        for sub in subsets {
            let mut perms = vec![sub.clone()];
            if sub.len() == 2 {
                perms.push(vec![sub[1], sub[0]]);
            } else if sub.len() == 3 {
                perms = vec![vec![sub[0], sub[1], sub[2]], vec![sub[0], sub[2], sub[1]], vec![sub[1], sub[0], sub[2]], vec![sub[1], sub[2], sub[0]], vec![sub[2], sub[0], sub[1]], vec![sub[2], sub[1], sub[0]]];
            }
            for p in perms {
                let order: Vec<String> = p.iter().map(|i| names[*i].clone()).collect();
                let mut r = run_sequential(&order);
                r["who"] = json!(p.iter().map(|i| i + 1).collect::<Vec<_>>());
                seqs.push(r);
            }
        }
        writeln!(out, "{}", json!({"id": c["id"], "conc": conc, "seq": seqs})).unwrap();
        n += 1;
    }
    json!({"runs": n, "deadlocks": dl})
}
