mod compat;
mod conc;
mod core;
mod doc;
mod drive;
mod extract;
mod grammar;
mod merge;
mod numbers;
mod probe;
mod replay;
mod rx;
mod sortcases;
mod splitc;
mod types;

fn arg(args: &[String], name: &str) -> Option<String> {
    args.iter().position(|a| a == name).and_then(|p| args.get(p + 1)).cloned()
}

fn main() {
    let args: Vec<String> = std::env::args().collect();
    // panics of the code under test are data; keep their messages out of stderr noise
    if std::env::var("VH_PANIC_VERBOSE").is_err() { std::panic::set_hook(Box::new(|_| {})); }
    match args.get(1).map(|s| s.as_str()) {
        Some("extract") => {
            let v = extract::extract();
            let s = serde_json::to_string(&v).unwrap();
            if let Some(p) = args.get(2) { std::fs::write(p, s).unwrap(); } else { println!("{s}"); }
        }
        Some("replay") => {
            let input = arg(&args, "--in").expect("--in");
            let outdir = arg(&args, "--out").expect("--out");
            let nm: usize = arg(&args, "--models").and_then(|s| s.parse().ok()).unwrap_or(2);
            let seed: u64 = arg(&args, "--seed").and_then(|s| s.parse().ok()).unwrap_or(1);
            let sample: usize = arg(&args, "--sample").and_then(|s| s.parse().ok()).unwrap_or(200);
            let names: Vec<String> = arg(&args, "--names").map(|s| s.split(',').map(|x| x.to_string()).collect()).unwrap_or_default();
            let ser = args.iter().any(|a| a == "--ser");
            let fixfile = arg(&args, "--fix");
            let r = replay::replay(&input, fixfile.as_deref(), &outdir, nm, seed, sample, names, ser);
            println!("{r}");
        }
        Some("drive") => {
            let out = arg(&args, "--out").expect("--out");
            let seed: u64 = arg(&args, "--seed").and_then(|s| s.parse().ok()).unwrap_or(1);
            let n: usize = arg(&args, "--n").and_then(|s| s.parse().ok()).unwrap_or(10);
            let len: usize = arg(&args, "--len").and_then(|s| s.parse().ok()).unwrap_or(40);
            let ser: usize = arg(&args, "--ser-every").and_then(|s| s.parse().ok()).unwrap_or(0);
            println!("{}", drive::drive(&out, seed, n, len, ser));
        }
        Some("regex") => {
            let data = arg(&args, "--data").expect("--data");
            let tests = arg(&args, "--tests").expect("--tests");
            println!("{}", rx::run(&data, &tests));
        }
        Some("regex1") => {
            let regex = arg(&args, "--regex").expect("--regex");
            let bytes: Vec<u8> = serde_json::from_str(&arg(&args, "--bytes").expect("--bytes")).unwrap();
            println!("{}", rx::one(&regex, &bytes));
        }
        Some("load") => {
            let input = arg(&args, "--in").expect("--in");
            let output = arg(&args, "--out").expect("--out");
            let subst: usize = arg(&args, "--subst").and_then(|s| s.parse().ok()).unwrap_or(0);
            let seed: u64 = arg(&args, "--seed").and_then(|s| s.parse().ok()).unwrap_or(1);
            // --stack-mb N: run the whole job on a thread with that stack size (pathological nesting is tried with the
            // default main-thread size of 8 MB); the calls themselves then run inline, not on the big executor thread
            if let Some(mb) = arg(&args, "--stack-mb").and_then(|s| s.parse::<usize>().ok()) {
                let pf = args.iter().any(|a| a == "--prefixes");
                std::env::set_var("VH_INLINE", "1");
                let h = std::thread::Builder::new().stack_size(mb << 20).spawn(move || doc::run(&input, &output, pf, subst, seed)).unwrap();
                println!("{}", h.join().unwrap());
            } else {
                println!("{}", doc::run(&input, &output, args.iter().any(|a| a == "--prefixes"), subst, seed));
            }
        }
        Some("sortcases") => {
            println!("{}", sortcases::run(&arg(&args, "--in").expect("--in"), &arg(&args, "--out").expect("--out"), &arg(&args, "--trace").expect("--trace")));
        }
        Some("types") => {
            let count: usize = arg(&args, "--count").and_then(|s| s.parse().ok()).unwrap_or(60);
            let seed: u64 = arg(&args, "--seed").and_then(|s| s.parse().ok()).unwrap_or(1);
            let v = types::sample(count, seed, args.iter().any(|a| a == "--all"));
            std::fs::write(arg(&args, "--out").expect("--out"), serde_json::to_string(&v).unwrap()).unwrap();
            println!("{}", serde_json::json!({"types": v["types"].as_object().map(|o| o.len()).unwrap_or(0), "total": v["total_types"]}));
        }
        Some("grammar") => {
            println!("{}", grammar::run(&arg(&args, "--types").expect("--types"), &arg(&args, "--in").expect("--in"), &arg(&args, "--out").expect("--out")));
        }
        Some("compat") => {
            println!("{}", compat::run(&arg(&args, "--types").expect("--types"), &arg(&args, "--in").expect("--in"), &arg(&args, "--out").expect("--out")));
        }
        Some("conc-record") => {
            println!("{}", conc::record(&arg(&args, "--out").expect("--out")));
        }
        Some("conc-sched") => {
            println!("{}", conc::sched(&arg(&args, "--in").expect("--in"), &arg(&args, "--out").expect("--out")));
        }
        Some("numbers") => {
            println!("{}", numbers::run(&arg(&args, "--in").expect("--in"), &arg(&args, "--out").expect("--out")));
        }
        Some("splitfacts") => {
            let n: usize = arg(&args, "--count").and_then(|s| s.parse().ok()).unwrap_or(60);
            println!("{}", splitc::facts(n));
        }
        Some("splitrun") => {
            println!("{}", splitc::run(&arg(&args, "--in").expect("--in"), &arg(&args, "--out").expect("--out")));
        }
        Some("merge") => {
            println!("{}", merge::run(&arg(&args, "--in").expect("--in"), &arg(&args, "--out").expect("--out")));
        }
        Some("probe") => {
            println!("{}", probe::run());
        }
        Some("histories") => {
            let input = arg(&args, "--in").expect("--in");
            let output = arg(&args, "--out").expect("--out");
            let nm: usize = arg(&args, "--models").and_then(|s| s.parse().ok()).unwrap_or(2);
            let names: Vec<String> = arg(&args, "--names").map(|s| s.split(',').map(|x| x.to_string()).collect()).unwrap_or_default();
            let ser = args.iter().any(|a| a == "--ser");
            println!("{}", replay::histories(&input, &output, nm, names, ser));
        }
        _ => { eprintln!("usage: vh extract|replay|histories ..."); std::process::exit(2); }
    }
}
