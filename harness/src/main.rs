fn main() { println!("{}", serde_json::json!({"ok": true})); }
