//! E6: builds the sibling arrangements enumerated by TLC (spec/sort/SortOrder.tla) on the real library, sorts, and logs
//! the order before / after / after a second sort together with digests of the sibling subtrees.
use crate::core::{text_hash, World};
use autosar_data::*;
use serde_json::{json, Value};
use std::io::{BufRead, Write};
use std::str::FromStr;

fn keys_and_digests(parent: &Element, fam: &str) -> (Vec<String>, Vec<String>, Vec<String>) {
    let mut keys = vec![];
    let mut ckeys = vec![];
    let mut digs = vec![];
    for e in parent.sub_elements() {
        if fam == "nested" {
            // the key of a sibling is its content; canonical key and digest: the same content in order
            let mut texts: Vec<String> = e.sub_elements().map(|sd| sd.character_data().map(|c| c.to_string()).unwrap_or_default()).collect();
            keys.push(texts.join(","));
            texts.sort();
            ckeys.push(texts.join(","));
            digs.push(format!("{}:{}", e.element_name().to_str(), texts.join(",")));
            continue;
        }
        if fam == "ordered" {
            // an argument: name + the texts of its SDGs
            let mut texts: Vec<String> = e.elements_dfs().filter(|(_, x)| x.element_name() == ElementName::Sd).map(|(_, sd)| sd.character_data().map(|c| c.to_string()).unwrap_or_default()).collect();
            let name = e.item_name().unwrap_or_default();
            keys.push(format!("{name}:{}", texts.join(",")));
            texts.sort();
            ckeys.push(format!("{name}:{}", texts.join(",")));
            digs.push(format!("{name}:{}", texts.join(",")));
            continue;
        }
        let k = match fam {
            "pkg" => e.item_name().unwrap_or_default(),
            "idxnamed" => format!("{}/{}", e.item_name().unwrap_or_default(), e.get_sub_element(ElementName::Index).and_then(|x| x.character_data()).map(|c| c.to_string()).unwrap_or_default()),
            "mixed" => format!("{}:{}", e.element_name().to_str(), e.item_name().unwrap_or_default()),
            _ => {
                let get = |n: ElementName| e.get_sub_element(n).and_then(|x| x.character_data()).map(|c| c.to_string()).unwrap_or_default();
                let d = get(ElementName::DefinitionRef);
                format!("{}/{}/{}", d.rsplit('/').next().unwrap_or(""), get(ElementName::Index), get(ElementName::Value))
            }
        };
        keys.push(k.clone());
        ckeys.push(k);
        digs.push(text_hash(&e.serialize()));
    }
    digs.sort();
    (keys, ckeys, digs)
}

pub fn run(input: &str, output: &str, trace: &str) -> Value {
    let fin = std::fs::File::open(input).unwrap();
    let mut out = std::io::BufWriter::new(std::fs::File::create(output).unwrap());
    let mut tr = std::io::BufWriter::new(std::fs::File::create(trace).unwrap());
    let mut n = 0;
    for l in std::io::BufReader::new(fin).lines() {
        let l = l.unwrap();
        let Ok(c) = serde_json::from_str::<Value>(&l) else { continue };
        let fam = c["fam"].as_str().unwrap_or("pkg").to_string();
        let mut w = World::new(1);
        let model = w.models[0].clone();
        model.create_file("f1", AutosarVersion::Autosar_00050).unwrap();
        let pkgs = model.root_element().create_sub_element(ElementName::ArPackages).unwrap();
        let perm = c["perm"].as_array().cloned().unwrap_or_default();
        let parent = match fam.as_str() {
            "pkg" => {
                for p in &perm {
                    let name = p.as_str().unwrap();
                    let e = pkgs.create_named_sub_element(ElementName::ArPackage, name).unwrap();
                    let _ = e.create_sub_element(ElementName::Category).and_then(|x| x.set_character_data(format!("c_{name}")));
                    e.set_comment(Some(format!("cmt {name}")));
                }
                pkgs.clone()
            }
            "nested" => {
                let pkg = pkgs.create_named_sub_element(ElementName::ArPackage, "p").unwrap();
                let sdgs = pkg.create_sub_element(ElementName::AdminData).and_then(|a| a.create_sub_element(ElementName::Sdgs)).unwrap();
                for p in &perm {
                    let sdg = sdgs.create_sub_element(ElementName::Sdg).unwrap();
                    let _ = sdg.set_attribute_string(AttributeName::Gid, "g");
                    for t in p.as_array().cloned().unwrap_or_default() {
                        let sd = sdg.create_sub_element(ElementName::Sd).unwrap();
                        let _ = sd.set_attribute_string(AttributeName::Gid, "v");
                        let _ = sd.set_character_data(t.as_str().unwrap_or("").to_string());
                    }
                }
                sdgs
            }
            "mixedcontent" => {
                let pkg = pkgs.create_named_sub_element(ElementName::ArPackage, "p").unwrap();
                let l2 = pkg.create_sub_element(ElementName::Desc).and_then(|d| d.create_sub_element(ElementName::L2)).unwrap();
                let _ = l2.set_attribute_string(AttributeName::L, "EN");
                let mut k = 0;
                for (pos, p) in perm.iter().enumerate() {
                    let s = p.as_str().unwrap();
                    if let Some(txt) = s.strip_prefix("c:") {
                        let _ = l2.insert_character_content_item(txt, pos);
                    } else if s == "e:TT" {
                        k += 1;
                        let _ = l2.create_sub_element_at(ElementName::Tt, pos).and_then(|e| e.set_character_data(format!("t{k}")));
                    } else {
                        k += 1;
                        let _ = l2.create_named_sub_element_at(ElementName::XrefTarget, &format!("x{k}"), pos);
                    }
                }
                l2
            }
            "idxnamed" => {
                let pkg = pkgs.create_named_sub_element(ElementName::ArPackage, "cfg").unwrap();
                let els = pkg.create_sub_element(ElementName::Elements).unwrap();
                let m = els.create_named_sub_element(ElementName::EcucModuleConfigurationValues, "m").unwrap();
                let cs = m.create_sub_element(ElementName::Containers).unwrap();
                let cv = cs.create_named_sub_element(ElementName::EcucContainerValue, "c").unwrap();
                let sc = cv.create_sub_element(ElementName::SubContainers).unwrap();
                for p in &perm {
                    let e = sc.create_named_sub_element(ElementName::EcucContainerValue, p["n"].as_str().unwrap()).unwrap();
                    if let Some(i) = p["idx"].as_str().filter(|s| !s.is_empty()) {
                        let _ = e.create_sub_element(ElementName::Index).and_then(|x| x.set_character_data(i.to_string()));
                    }
                }
                sc
            }
            "ordered" => {
                let pkg = pkgs.create_named_sub_element(ElementName::ArPackage, "p").unwrap();
                let els = pkg.create_sub_element(ElementName::Elements).unwrap();
                let csi = els.create_named_sub_element(ElementName::ClientServerInterface, "csi").unwrap();
                let op = csi.create_sub_element(ElementName::Operations).and_then(|o| o.create_named_sub_element(ElementName::ClientServerOperation, "op")).unwrap();
                let args = op.create_sub_element(ElementName::Arguments).unwrap();
                for (p, name) in perm.iter().zip(["z", "y", "x"]) {
                    let a = args.create_named_sub_element(ElementName::ArgumentDataPrototype, name).unwrap();
                    let sdgs = a.create_sub_element(ElementName::AdminData).and_then(|x| x.create_sub_element(ElementName::Sdgs)).unwrap();
                    for t in p.as_array().cloned().unwrap_or_default() {
                        let sdg = sdgs.create_sub_element(ElementName::Sdg).unwrap();
                        let _ = sdg.set_attribute_string(AttributeName::Gid, "g");
                        let sd = sdg.create_sub_element(ElementName::Sd).unwrap();
                        let _ = sd.set_attribute_string(AttributeName::Gid, "v");
                        let _ = sd.set_character_data(t.as_str().unwrap_or("").to_string());
                    }
                }
                args
            }
            "mixed" => {
                let pkg = pkgs.create_named_sub_element(ElementName::ArPackage, "p").unwrap();
                let els = pkg.create_sub_element(ElementName::Elements).unwrap();
                for p in &perm {
                    let kind = ElementName::from_str(p["k"].as_str().unwrap()).unwrap();
                    let _ = els.create_named_sub_element(kind, p["n"].as_str().unwrap()).unwrap();
                }
                els
            }
            _ => {
                let pkg = pkgs.create_named_sub_element(ElementName::ArPackage, "cfg").unwrap();
                let els = pkg.create_sub_element(ElementName::Elements).unwrap();
                let m = els.create_named_sub_element(ElementName::EcucModuleConfigurationValues, "m").unwrap();
                let cs = m.create_sub_element(ElementName::Containers).unwrap();
                let cv = cs.create_named_sub_element(ElementName::EcucContainerValue, "c").unwrap();
                let pv = cv.create_sub_element(ElementName::ParameterValues).unwrap();
                for p in &perm {
                    let e = pv.create_sub_element(ElementName::EcucNumericalParamValue).unwrap();
                    if let Some(i) = p["idx"].as_str().filter(|s| !s.is_empty()) {
                        let _ = e.create_sub_element(ElementName::Index).and_then(|x| x.set_character_data(i.to_string()));
                    }
                    let d = e.create_sub_element(ElementName::DefinitionRef).unwrap();
                    let _ = d.set_attribute_string(AttributeName::Dest, "ECUC-INTEGER-PARAM-DEF");
                    let _ = d.set_character_data(format!("/d/{}", p["def"].as_str().unwrap()));
                    let _ = e.create_sub_element(ElementName::Value).and_then(|x| x.set_character_data(p["val"].as_str().unwrap().to_string()));
                }
                pv
            }
        };
        let fixed = |p: &Element| -> Vec<String> {
            if fam == "ordered" {
                p.sub_elements().map(|e| e.item_name().unwrap_or_default()).collect()
            } else if fam == "mixedcontent" {
                // every content item in place: text runs and inline elements
                p.content().map(|c| match c {
                    ElementContent::CharacterData(cd) => format!("c:{cd}"),
                    ElementContent::Element(e) => format!("e:{}", e.element_name().to_str()),
                }).collect()
            } else {
                vec![]
            }
        };
        let fixedbefore = fixed(&parent);
        let (before, cbefore, subbefore) = keys_and_digests(&parent, &fam);
        // E1-style trace around the sort, so that TLC also judges tree / index / reference predicates on it
        let reset = json!({"ev": {"op": "reset"}, "res": {"t": "ok", "v": 0}, "obs": w.observe(true), "h": [], "fix": []});
        writeln!(tr, "{reset}").unwrap();
        let pid = { w.register_new(); w.idmap[&model.root_element()] };
        let a = json!({"op": "Sort", "m": 0, "p": pid, "c": 0, "k": "", "name": "", "pos": -1, "val": {"k": "s", "v": ""}, "an": "", "f": 0, "ver": ""});
        let res = w.exec(&a);
        let (after, cafter, subafter) = keys_and_digests(&parent, &fam);
        writeln!(tr, "{}", json!({"ev": a, "res": res, "obs": w.observe(true)})).unwrap();
        let res2 = w.exec(&a);
        let (after2, _, _) = keys_and_digests(&parent, &fam);
        let rc = if res["t"] == "ok" && res2["t"] == "ok" { "ok".to_string() } else { format!("{}/{}", res["t"], res2["t"]) };
        writeln!(out, "{}", json!({"fam": fam, "group": c["group"], "before": before, "after": after, "after2": after2, "cbefore": cbefore, "cafter": cafter, "fixedbefore": fixedbefore, "fixedafter": fixed(&parent), "res": rc,
            "subbefore": subbefore, "subafter": subafter})).unwrap();
        n += 1;
    }
    json!({"cases": n})
}
