//! E4: loads generated documents / byte strings (strict, lenient, header check) and reports outcomes and projections.
//! No property logic: the predicates are evaluated by TLC (spec/doc/DocTrace.tla) on the records written here.
use crate::core::{run_guarded, text_hash, warn_kind, Guarded, Out};
use autosar_data::*;
use serde_json::{json, Value};
use std::io::{BufRead, Write};
use std::time::Duration;

/// "{hh}" -> byte; everything else literally
pub fn decode(text: &str) -> Vec<u8> {
    let b = text.as_bytes();
    let mut out = Vec::with_capacity(b.len());
    let mut i = 0;
    while i < b.len() {
        if b[i] == b'{' && b.get(i + 3) == Some(&b'}') {
            if let Ok(v) = u8::from_str_radix(std::str::from_utf8(&b[i + 1..i + 3]).unwrap_or("zz"), 16) {
                out.push(v);
                i += 4;
                continue;
            }
        }
        out.push(b[i]);
        i += 1;
    }
    out
}

/// inverse notation for projected strings: bytes outside printable ASCII and '{' are written {hh}
pub fn encode(s: &str) -> String {
    let mut out = String::new();
    for b in s.as_bytes() {
        if *b == b'{' || *b < 0x20 && *b != b'\n' && *b != b'\t' && *b != b'\r' || *b >= 0x7f {
            out.push_str(&format!("{{{b:02x}}}"));
        } else {
            out.push(*b as char);
        }
    }
    out
}

/// the text of a value, formatted here (not by the library): typed values in the canonical AUTOSAR lexical form
fn val_text(cd: &CharacterData) -> String {
    match cd {
        CharacterData::Float(f) if f.is_nan() => "NaN".to_string(),
        CharacterData::Float(f) if f.is_infinite() => if *f < 0.0 { "-INF".to_string() } else { "INF".to_string() },
        CharacterData::Float(f) => format!("{f}"),
        CharacterData::UnsignedInteger(u) => format!("{u}"),
        CharacterData::Enum(it) => it.to_str().to_string(),
        CharacterData::String(s) => s.clone(),
    }
}

pub fn proj(e: &Element) -> Value {
    // built with owned maps: the json! macro would deep-copy the nested value at every level (quadratic in the depth)
    let is_root = e.element_name() == ElementName::Autosar;
    let attrs: Vec<Value> = e
        .attributes()
        .filter(|a| !(is_root && a.attrname == AttributeName::xsiSchemalocation))
        .map(|a| json!({"n": a.attrname.to_str(), "v": encode(&val_text(&a.content))}))
        .collect();
    let mut items: Vec<Value> = vec![];
    for c in e.content() {
        let mut m = serde_json::Map::new();
        match c {
            ElementContent::Element(s) => {
                m.insert("t".into(), Value::String("e".into()));
                m.insert("e".into(), proj(&s));
            }
            ElementContent::CharacterData(cd) => {
                m.insert("t".into(), Value::String("c".into()));
                m.insert("v".into(), Value::String(encode(&val_text(&cd))));
            }
        }
        items.push(Value::Object(m));
    }
    let mut m = serde_json::Map::new();
    m.insert("n".into(), Value::String(e.element_name().to_str().into()));
    m.insert("a".into(), Value::Array(attrs));
    m.insert("c".into(), Value::Array(e.comment().map(|c| vec![Value::String(encode(&c))]).unwrap_or_default()));
    m.insert("i".into(), Value::Array(items));
    Value::Object(m)
}

fn err_line(e: &AutosarDataError) -> i64 {
    match e {
        AutosarDataError::ParserError { line, .. } | AutosarDataError::LexerError { line, .. } => *line as i64,
        _ => -1,
    }
}

fn load_once(bytes: &[u8], strict: bool, want_proj: bool) -> Value {
    let data = bytes.to_vec();
    let job: Box<dyn FnOnce() -> Out + Send> = Box::new(move || {
        let model = AutosarModel::new();
        let r = model.load_buffer(&data, "doc.arxml", strict);
        let v = match r {
            Ok((file, warns)) => {
                let p = proj(&model.root_element());
                let d1 = text_hash(&p.to_string());
                // round trip: serialize, load that text, serialize again
                let (mut d2, mut s1, mut s2, mut rt) = (String::new(), String::new(), String::new(), "none".to_string());
                if let Ok(t1) = file.serialize() {
                    s1 = text_hash(&t1);
                    let m2 = AutosarModel::new();
                    match m2.load_buffer(t1.as_bytes(), "doc.arxml", strict) {
                        Ok((f2, _)) => {
                            d2 = text_hash(&proj(&m2.root_element()).to_string());
                            s2 = f2.serialize().map(|t| text_hash(&t)).unwrap_or_default();
                            rt = "ok".into();
                        }
                        Err(e) => rt = format!("reload failed: {e}"),
                    }
                }
                let w: Vec<Value> = warns.iter().map(|w| json!({"k": warn_kind(w), "line": err_line(w), "msg": encode(&w.to_string())})).collect();
                let mut m = serde_json::Map::new();
                m.insert("t".into(), json!("ok"));
                m.insert("k".into(), json!(""));
                m.insert("line".into(), json!(0));
                m.insert("msg".into(), json!(""));
                m.insert("warn".into(), Value::Array(w));
                m.insert("d".into(), json!(d1));
                m.insert("proj".into(), if want_proj { p } else { json!("") });
                m.insert("rt".into(), json!({"t": rt, "d2": d2, "s1": s1, "s2": s2}));
                Value::Object(m)
            }
            Err(e) => json!({"t": "err", "k": warn_kind(&e), "line": err_line(&e), "msg": encode(&e.to_string()), "warn": [], "d": "", "proj": "",
                             "rt": {"t": "none", "d2": "", "s1": "", "s2": ""}}),
        };
        Out::Json(v)
    });
    match run_guarded(job, Duration::from_millis(10_000)) {
        Guarded::Done(Out::Json(v)) => v,
        Guarded::Done(_) => json!({"t": "tool"}),
        Guarded::Panic(m) => json!({"t": "panic", "k": "", "line": 0, "msg": encode(&m), "warn": [], "d": "", "proj": "", "rt": {"t": "none", "d2": "", "s1": "", "s2": ""}}),
        Guarded::Hang | Guarded::Skipped => json!({"t": "hang", "k": "", "line": 0, "msg": "", "warn": [], "d": "", "proj": "", "rt": {"t": "none", "d2": "", "s1": "", "s2": ""}}),
    }
}

fn check_once(bytes: &[u8]) -> Value {
    let data = bytes.to_vec();
    let job: Box<dyn FnOnce() -> Out + Send> = Box::new(move || Out::Bool(check_buffer(&data)));
    match run_guarded(job, Duration::from_millis(10_000)) {
        Guarded::Done(Out::Bool(b)) => json!({"t": "ok", "v": b}),
        Guarded::Panic(_) => json!({"t": "panic", "v": false}),
        _ => json!({"t": "hang", "v": false}),
    }
}

pub fn one(id: &Value, kind: &str, cls: &str, bytes: &[u8], exp: &Value, f: &mut impl Write) {
    let want = kind == "doc";
    let rec = json!({"id": id, "kind": kind, "cls": cls, "nlines": 1 + bytes.iter().filter(|b| **b == b'\n').count(), "len": bytes.len(),
        "strict": load_once(bytes, true, want), "lenient": load_once(bytes, false, want), "check": check_once(bytes), "exp": if exp.is_null() { json!("") } else { exp.clone() },
        "text": if bytes.len() <= 300 { encode(&String::from_utf8_lossy(bytes)) } else { String::new() }});
    writeln!(f, "{rec}").unwrap();
}

/// `vh load`: inputs {id, kind, cls, text, exp}; with --prefixes every prefix that ends at a '<' or '>' of a "doc" input is tried too
pub fn run(input: &str, output: &str, prefixes: bool, subst: usize, seed: u64) -> Value {
    let fin = std::fs::File::open(input).unwrap();
    let mut out = std::io::BufWriter::new(std::fs::File::create(output).unwrap());
    let mut n = 0usize;
    let mut rng = crate::drive::Rng(seed);
    for l in std::io::BufReader::new(fin).lines() {
        let l = l.unwrap();
        let Ok(v) = serde_json::from_str::<Value>(&l) else { continue };
        let bytes = decode(v["text"].as_str().unwrap_or(""));
        let kind = v["kind"].as_str().unwrap_or("raw");
        one(&v["id"], kind, v["cls"].as_str().unwrap_or(""), &bytes, &v["exp"], &mut out);
        n += 1;
        if prefixes && kind == "doc" && v["pre"].as_bool().unwrap_or(false) {
            for (i, b) in bytes.iter().enumerate() {
                if (*b == b'<' || *b == b'>' || *b == b'"' || *b == b'&') && i > 0 {
                    one(&json!(format!("{}#pre{}", v["id"], i)), "trunc", "prefix", &bytes[..i], &Value::Null, &mut out);
                    one(&json!(format!("{}#pre{}", v["id"], i + 1)), "trunc", "prefix", &bytes[..=i], &Value::Null, &mut out);
                    n += 2;
                }
            }
            for k in 0..subst {
                let mut m = bytes.clone();
                let pos = rng.below(m.len());
                let repl = *rng.pick(&[b'<', b'>', b'/', b'?', b'!', b'-', b'=', b'"', b'\'', b' ', b'\n', b'&', b';', b'#', 0xff, 0x80, b'x']);
                m[pos] = repl;
                one(&json!(format!("{}#sub{}", v["id"], k)), "subst", "substitution", &m, &Value::Null, &mut out);
                n += 1;
            }
        }
    }
    json!({"inputs": n})
}
