//! E3: executes the editing cases enumerated by TLC (spec/grammar/Grammar.tla) on a real element of the given type and
//! reports what the library answers: insertion ranges, which positions accept a creation, the allowed list, and what a
//! lenient reload of the built file complains about.
use crate::core::warn_kind;
use autosar_data::*;
use autosar_data_specification::expand_version_mask;
use serde_json::{json, Map, Value};
use std::io::{BufRead, Write};
use std::str::FromStr;

fn version_of_bit(b: u64) -> AutosarVersion {
    expand_version_mask(1u32 << b).first().copied().unwrap_or(AutosarVersion::LATEST)
}

fn create(e: &Element, name: ElementName, pos: Option<usize>, ver: AutosarVersion, counter: &mut usize) -> Result<Element, AutosarDataError> {
    let named = e.element_type().find_sub_element(name, ver as u32).map(|(t, _)| t.is_named_in_version(ver)).unwrap_or(false);
    if named {
        *counter += 1;
        let n = format!("n{counter}");
        match pos {
            Some(p) => e.create_named_sub_element_at(name, &n, p),
            None => e.create_named_sub_element(name, &n),
        }
    } else {
        match pos {
            Some(p) => e.create_sub_element_at(name, p),
            None => e.create_sub_element(name),
        }
    }
}

pub fn run(types: &str, input: &str, output: &str) -> Value {
    let tj: Value = serde_json::from_str(&std::fs::read_to_string(types).unwrap()).unwrap();
    let fin = std::fs::File::open(input).unwrap();
    let mut out = std::io::BufWriter::new(std::fs::File::create(output).unwrap());
    let (mut n, mut unbuildable) = (0usize, 0usize);
    for l in std::io::BufReader::new(fin).lines() {
        let l = l.unwrap();
        let Ok(c) = serde_json::from_str::<Value>(&l) else { continue };
        let ty = c["ty"].as_str().unwrap_or("");
        let ver = version_of_bit(c["ver"].as_u64().unwrap_or(20));
        let tinfo = &tj["types"][ty];
        let model = AutosarModel::new();
        let file = model.create_file("g.arxml", ver).unwrap();
        let mut cur = model.root_element();
        let mut counter = 0usize;
        let mut ok = true;
        for step in tinfo["path"].as_array().cloned().unwrap_or_default() {
            let Ok(name) = ElementName::from_str(step.as_str().unwrap_or("")) else { ok = false; break };
            match create(&cur, name, None, ver, &mut counter) {
                Ok(e) => cur = e,
                Err(_) => { ok = false; break }
            }
        }
        if !ok {
            unbuildable += 1;
            writeln!(out, "{}", json!({"ty": ty, "ver": c["ver"], "hist": c["hist"], "built": false, "why": "path"})).unwrap();
            continue;
        }
        let target = cur;
        // a named target got its SHORT-NAME from create(): the enumerated child sequence is what follows it
        let base = 0usize;
        let kids = tinfo["children"].as_array().cloned().unwrap_or_default();
        let mut built = true;
        let mut why = String::new();
        for h in c["hist"].as_array().cloned().unwrap_or_default() {
            let k = h[0].as_u64().unwrap_or(1) as usize;
            let p = h[1].as_u64().unwrap_or(0) as usize;
            let name = ElementName::from_str(kids[k - 1]["name"].as_str().unwrap_or("")).unwrap();
            if let Err(e) = create(&target, name, Some(base + p), ver, &mut counter) {
                built = false;
                why = format!("{e:?}");
                break;
            }
        }
        let mut obs = Map::new();
        let len = target.content_item_count() - base;
        if built {
            if let Some(exp) = c["exp"].as_array() {
                for e in exp {
                    let nm = e["name"].as_str().unwrap_or("");
                    let Ok(name) = ElementName::from_str(nm) else { continue };
                    let range = match target.calc_element_insert_range(name, ver) {
                        Ok((lo, hi)) => json!([lo as i64 - base as i64, hi as i64 - base as i64]),
                        Err(er) => json!(format!("{er:?}").split(|ch: char| !ch.is_alphanumeric()).next().unwrap_or("")),
                    };
                    let mut oks = vec![];
                    let mut ckey = String::new();
                    for p in 0..=(len + 1) {
                        if let Ok(ne) = create(&target, name, Some(base + p), ver, &mut counter) {
                            oks.push(p);
                            ckey = crate::types::type_key(ne.element_type());
                            let _ = target.remove_sub_element(ne);
                        }
                    }
                    obs.insert(nm.to_string(), json!({"range": range, "ok": oks, "ckey": ckey}));
                }
            }
        }
        let listed: Vec<Value> = target.list_valid_sub_elements().iter().map(|i| json!([i.element_name.to_str(), i.is_allowed, i.is_named])).collect();
        // what the loader says about the file that was built
        let warn: Vec<String> = match file.serialize() {
            Ok(text) => match AutosarModel::new().load_buffer(text.as_bytes(), "r.arxml", false) {
                Ok((_, w)) => w.iter().map(warn_kind).collect(),
                Err(e) => vec![format!("RELOADFAILED:{}", warn_kind(&e))],
            },
            Err(_) => vec!["SERIALIZEFAILED".into()],
        };
        writeln!(out, "{}", json!({"ty": ty, "ver": c["ver"], "hist": c["hist"], "built": built, "why": why, "base": base, "obs": obs, "listed": listed, "warn": warn})).unwrap();
        n += 1;
    }
    json!({"cases": n, "unbuildable": unbuildable})
}
