------------------------------- MODULE LockMC -------------------------------
(* E2: the reader-writer lock semantics of the crate's locks (parking_lot 0.12, task-fair: readers are refused  *)
(* while a writer holds or waits for the lock; a writer first takes the writer bit, then waits for the readers   *)
(* to drain; try_write needs the lock completely free; timed acquisitions may give up) and the exploration of    *)
(* every interleaving of two recorded lock programs at lock-event granularity.                                   *)
(* Pairs (LockData.tla, generated from programs recorded on the current tree, projected to the locks both        *)
(* programs touch): [a, b: operation names, p: <<program 1, program 2>>]; a step is                              *)
(*   [a: "acq"|"rel", l: lock label, m: "R"|"W", k: "block"|"try"|"timed", f: "abort"|"skip"|"noop", s: site].   *)
EXTENDS Integers, Sequences, FiniteSets, TLC, Json, LockData

CONSTANTS Mode    \* "deadlock": explore all interleavings;  "schedules": emit one-preemption schedules
VARIABLES pi, pc, wbit, wph, rd, ghost, held, done, sched

Thr == {1, 2}
Prog(t) == Pairs[pi].p[t]
LocksOf(i) == {Pairs[i].locks[j] : j \in 1..Len(Pairs[i].locks)}
Locks == LocksOf(pi)
AtEnd(t) == pc[t] > Len(Prog(t))
Cur(t) == Prog(t)[pc[t]]
Readers(l) == rd[l][1] + rd[l][2]

vars == <<pi, pc, wbit, wph, rd, ghost, held, done, sched>>
Adv(t) == pc' = [pc EXCEPT ![t] = @ + 1]
Log(t) == sched' = Append(sched, t)

\* ---------------------------------------------------------------- the steps of thread t
AcqRead(t) == /\ ~done[t] /\ ~AtEnd(t) /\ Cur(t).a = "acq" /\ Cur(t).m = "R" /\ Cur(t).f # "noop"
              /\ wbit[Cur(t).l] = 0
              /\ rd' = [rd EXCEPT ![Cur(t).l][t] = @ + 1] /\ held' = [held EXCEPT ![t] = Append(@, <<Cur(t).l, "R">>)]
              /\ Adv(t) /\ Log(t) /\ UNCHANGED <<pi, wbit, wph, ghost, done>>
GrabW(t) == /\ ~done[t] /\ ~AtEnd(t) /\ Cur(t).a = "acq" /\ Cur(t).m = "W" /\ Cur(t).k \in {"block", "timed"} /\ Cur(t).f # "noop"
            /\ wbit[Cur(t).l] = 0
            /\ wbit' = [wbit EXCEPT ![Cur(t).l] = t] /\ wph' = [wph EXCEPT ![Cur(t).l] = "pending"]
            /\ Log(t) /\ UNCHANGED <<pi, pc, rd, ghost, held, done>>
Drain(t) == /\ ~done[t] /\ ~AtEnd(t) /\ Cur(t).a = "acq" /\ Cur(t).m = "W"
            /\ wbit[Cur(t).l] = t /\ wph[Cur(t).l] = "pending" /\ Readers(Cur(t).l) = 0
            /\ wph' = [wph EXCEPT ![Cur(t).l] = "held"] /\ held' = [held EXCEPT ![t] = Append(@, <<Cur(t).l, "W">>)]
            \* (not logged in the witness schedule: for the real lock, taking the writer bit and draining is one call)
            /\ Adv(t) /\ UNCHANGED <<pi, wbit, rd, ghost, done, sched>>
TryW(t) == /\ ~done[t] /\ ~AtEnd(t) /\ Cur(t).a = "acq" /\ Cur(t).m = "W" /\ Cur(t).k = "try" /\ Cur(t).f # "noop"
           /\ wbit[Cur(t).l] = 0 /\ Readers(Cur(t).l) = 0
           /\ wbit' = [wbit EXCEPT ![Cur(t).l] = t] /\ wph' = [wph EXCEPT ![Cur(t).l] = "held"]
           /\ held' = [held EXCEPT ![t] = Append(@, <<Cur(t).l, "W">>)]
           /\ Adv(t) /\ Log(t) /\ UNCHANGED <<pi, rd, ghost, done>>
\* a failed try / a timed acquisition giving up: the documented ParentElementLocked path (abort: everything held is
\* released and the call returns), or a site that tolerates the failure (skip)
Unavailable(t) == LET e == Cur(t) IN
                  IF e.m = "R" THEN wbit[e.l] # 0
                  ELSE IF e.k = "try" THEN wbit[e.l] # 0 \/ Readers(e.l) # 0
                  ELSE (wbit[e.l] # 0 /\ wbit[e.l] # t) \/ (wbit[e.l] = t /\ wph[e.l] = "pending" /\ Readers(e.l) # 0)
RECURSIVE ReleaseAll(_, _, _, _)
ReleaseAll(h, t, wb, r) == IF h = <<>> THEN [wb |-> wb, r |-> r]
                           ELSE LET x == Head(h) IN
                                IF x[2] = "W" THEN ReleaseAll(Tail(h), t, [wb EXCEPT ![x[1]] = 0], r)
                                ELSE ReleaseAll(Tail(h), t, wb, [r EXCEPT ![x[1]][t] = @ - 1])
GiveUp(t) == /\ ~done[t] /\ ~AtEnd(t) /\ Cur(t).a = "acq" /\ Cur(t).k \in {"try", "timed"} /\ Cur(t).f # "noop" /\ Unavailable(t)
             /\ LET e == Cur(t)
                    wb0 == IF wbit[e.l] = t /\ wph[e.l] = "pending" THEN [wbit EXCEPT ![e.l] = 0] ELSE wbit IN
                IF e.f = "abort" THEN
                     LET ra == ReleaseAll(held[t], t, wb0, rd) IN
                     /\ wbit' = ra.wb /\ rd' = ra.r /\ held' = [held EXCEPT ![t] = <<>>] /\ done' = [done EXCEPT ![t] = TRUE]
                     /\ wph' = [l \in Locks |-> IF ra.wb[l] = 0 THEN "none" ELSE wph[l]]
                     /\ UNCHANGED <<pc, ghost>>
                ELSE /\ wbit' = wb0 /\ wph' = [l \in Locks |-> IF wb0[l] = 0 THEN "none" ELSE wph[l]]
                     /\ ghost' = [ghost EXCEPT ![t] = Append(@, <<e.l, e.m>>)] /\ Adv(t) /\ UNCHANGED <<rd, held, done>>
             /\ (IF Cur(t).m = "W" /\ wbit[Cur(t).l] = t /\ wph[Cur(t).l] = "pending" THEN UNCHANGED sched ELSE Log(t)) /\ UNCHANGED pi
Noop(t) == /\ ~done[t] /\ ~AtEnd(t) /\ Cur(t).a = "acq" /\ Cur(t).f = "noop"
           /\ Adv(t) /\ Log(t) /\ UNCHANGED <<pi, wbit, wph, rd, ghost, held, done>>
RemoveFirst(sq, x) == LET S == {i \in 1..Len(sq) : sq[i] = x} IN
                      IF S = {} THEN sq ELSE LET i == CHOOSE j \in S : \A q \in S : j <= q IN SubSeq(sq, 1, i - 1) \o SubSeq(sq, i + 1, Len(sq))
RemoveLast(sq, x) == LET S == {i \in 1..Len(sq) : sq[i] = x} IN
                     IF S = {} THEN sq ELSE LET i == CHOOSE j \in S : \A q \in S : j >= q IN SubSeq(sq, 1, i - 1) \o SubSeq(sq, i + 1, Len(sq))
Rel(t) == /\ ~done[t] /\ ~AtEnd(t) /\ Cur(t).a = "rel"
          /\ LET e == Cur(t) x == <<e.l, e.m>> IN
             IF \E i \in 1..Len(ghost[t]) : ghost[t][i] = x
             THEN ghost' = [ghost EXCEPT ![t] = RemoveFirst(@, x)] /\ UNCHANGED <<wbit, wph, rd, held>>
             ELSE /\ held' = [held EXCEPT ![t] = RemoveLast(@, x)] /\ UNCHANGED ghost
                  /\ IF e.m = "W" THEN wbit' = [wbit EXCEPT ![e.l] = 0] /\ wph' = [wph EXCEPT ![e.l] = "none"] /\ UNCHANGED rd
                     ELSE rd' = [rd EXCEPT ![e.l][t] = @ - 1] /\ UNCHANGED <<wbit, wph>>
          /\ Adv(t) /\ Log(t) /\ UNCHANGED <<pi, done>>
Finish(t) == /\ ~done[t] /\ AtEnd(t) /\ done' = [done EXCEPT ![t] = TRUE] /\ UNCHANGED <<pi, pc, wbit, wph, rd, ghost, held, sched>>
Step(t) == AcqRead(t) \/ GrabW(t) \/ Drain(t) \/ TryW(t) \/ GiveUp(t) \/ Noop(t) \/ Rel(t) \/ Finish(t)

Enabled(t) == ENABLED Step(t)
Stuck == (\E t \in Thr : ~done[t]) /\ \A t \in Thr : ~Enabled(t)

Init == /\ pi \in 1..Len(Pairs) /\ pc = <<1, 1>>
        /\ wbit = [l \in LocksOf(pi) |-> 0] /\ wph = [l \in LocksOf(pi) |-> "none"]
        /\ rd = [l \in LocksOf(pi) |-> <<0, 0>>]
        /\ ghost = <<<<>>, <<>>>> /\ held = <<<<>>, <<>>>> /\ done = <<FALSE, FALSE>> /\ sched = <<>>
Next == (\E t \in Thr : Step(t)) \/ (Stuck /\ UNCHANGED vars)
Spec == Init /\ [][Next]_vars
View == <<pi, pc, wbit, wph, rd, ghost, held, done>>

\* monitor: every stuck state is printed with the blocked acquisitions and a witness schedule
BlockedSite(t) == IF done[t] THEN "done" ELSE IF AtEnd(t) THEN "end" ELSE Cur(t).s
NoDeadlock == IF Stuck THEN PrintT(<<"STUCK", ToJson([pair |-> pi, a |-> Pairs[pi].a, b |-> Pairs[pi].b, s1 |-> BlockedSite(1), s2 |-> BlockedSite(2), sched |-> sched])>>)
              ELSE TRUE
=============================================================================
