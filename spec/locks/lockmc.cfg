SPECIFICATION Spec
VIEW View
CHECK_DEADLOCK FALSE
INVARIANT NoDeadlock
CONSTANTS
  Mode = "deadlock"
