-------------------------------- MODULE Conc --------------------------------
(* C16: serialisability of concurrent runs.  (1) Generation of schedules for a pair of recorded lock programs:  *)
(* every schedule with at most one preemption at lock-event granularity.  (2) The predicate Serializable over    *)
(* the record of one concurrent run of the real library together with the sequential runs of the same            *)
(* operations (the library itself is the sequential oracle).                                                     *)
EXTENDS Integers, Sequences, FiniteSets, TLC, Json, IOUtils, LockData

CONSTANTS Mode, Stride
VARIABLE x

\* number of scheduling points (gated lock events) of a program: every step except those of a failed recording is one
NEv(p) == Len(p)
Rep(t, n) == [i \in 1..n |-> t]
\* thread `first` runs k events, then the other thread runs completely, then `first` finishes
OnePreemption(first, k, n1, n2) == LET other == 3 - first
                                       nf == IF first = 1 THEN n1 ELSE n2
                                       no == IF first = 1 THEN n2 ELSE n1 IN
                                   Rep(first, k) \o Rep(other, no) \o Rep(first, nf - k)
SchedulesOf(i, ff) == {[pair |-> i, a |-> Pairs[i].a, b |-> Pairs[i].b, first |-> ff, k |-> k,
                         sched |-> OnePreemption(ff, k, NEv(Pairs[i].p[1]), NEv(Pairs[i].p[2]))] :
                           k \in {j \in 0..(IF ff = 1 THEN NEv(Pairs[i].p[1]) ELSE NEv(Pairs[i].p[2])) : j % Stride = 0}}
Schedules == UNION {SchedulesOf(i, 1) \cup SchedulesOf(i, 2) : i \in 1..Len(Pairs)}

ASSUME Mode # "judge" \/ TLCSet(11, ndJsonDeserialize(IOEnv.RESULTS))
Log == TLCGet(11)
SeqSet(s) == {s[i] : i \in 1..Len(s)}
Kept(r) == {t \in 1..Len(r.conc.res) : r.conc.res[t] # "ParentElementLocked"}
Match(r, s) == /\ SeqSet(s.who) = Kept(r) /\ Len(s.who) = Cardinality(Kept(r))
               /\ \A j \in 1..Len(s.who) : s.res[j] = r.conc.res[s.who[j]]
               /\ s.canon = r.conc.canon
Serializable(r) == r.conc.deadlock \/ \E j \in 1..Len(r.seq) : Match(r, r.seq[j])
Judge(j) == IF Serializable(Log[j]) THEN TRUE
            ELSE PrintT(<<"V", ToJson([step |-> j, pred |-> "Serializable", prop |-> "C16", ops |-> Log[j].conc.ops, res |-> Log[j].conc.res,
                                       schedule |-> Log[j].conc.schedule, id |-> Log[j].id])>>)

Init == CASE Mode = "gen" -> x \in Schedules /\ PrintT(<<"I", ToJson(x)>>)
          [] OTHER -> x = 1 /\ (IF Len(Log) >= 1 THEN Judge(1) ELSE TRUE)
Next == Mode = "judge" /\ x < Len(Log) /\ x' = x + 1 /\ Judge(x + 1)
Spec == Init /\ [][Next]_x
=============================================================================
