------------------------------ MODULE SortOrder ------------------------------
(* E6: sorting.  (1) The element comparison used by sort() -- item names decomposed into base and trailing     *)
(* number -- transcribed, so that TLC can ask whether it is a total preorder over a name universe (design      *)
(* level).  (2) Generation of sort cases: sets / multisets of sibling summaries and all their permutations.    *)
(* (3) The property predicates over the results the real library produced for these cases.                     *)
EXTENDS Integers, Sequences, FiniteSets, TLC, Json, IOUtils, SequencesExt

CONSTANTS Mode,     \* "order" | "gen" | "judge"
          MaxSize   \* largest number of siblings in a generated case

\* ------------------------------------------------------------------ (1) the name comparison, on decomposed names
\* TLC has no string order: a name is given as <<base rank, has number, number, full rank>>; ranks = position in byte order
\* name universe: a < a1 < a10 < a1b < a2 < b   (byte order of the full strings)
\* brank = rank of the base string in byte order ("a" < "a1b" < "b")
NameInfo == [a   |-> [base |-> "a",   brank |-> 1, num |-> -1, full |-> 1],
             a1  |-> [base |-> "a",   brank |-> 1, num |-> 1,  full |-> 2],
             a10 |-> [base |-> "a",   brank |-> 1, num |-> 10, full |-> 3],
             a1b |-> [base |-> "a1b", brank |-> 2, num |-> -1, full |-> 4],
             a2  |-> [base |-> "a",   brank |-> 1, num |-> 2,  full |-> 5],
             b   |-> [base |-> "b",   brank |-> 3, num |-> -1, full |-> 6]]
Names == DOMAIN NameInfo
\* Element::cmp on two item names as the code did it before the repair recorded in known_findings.json: both decompose
\* and the bases are equal -> numbers; otherwise full strings.  Not transitive (kept for reference; TLC shows the cycle)
CmpOld(x, y) ==
  LET i == NameInfo[x] j == NameInfo[y] IN
  IF i.num >= 0 /\ j.num >= 0 /\ i.base = j.base /\ i.num # j.num THEN (IF i.num < j.num THEN -1 ELSE 1)
  ELSE IF i.full < j.full THEN -1 ELSE IF i.full > j.full THEN 1 ELSE 0
\* the comparison now: (base, number or none, full name), lexicographically
CmpCode(x, y) ==
  LET i == NameInfo[x] j == NameInfo[y] IN
  IF i.brank # j.brank THEN (IF i.brank < j.brank THEN -1 ELSE 1)
  ELSE IF i.num # j.num THEN (IF i.num < j.num THEN -1 ELSE 1)
  ELSE IF i.full < j.full THEN -1 ELSE IF i.full > j.full THEN 1 ELSE 0
Transitive(C(_, _)) == \A x, y, z \in Names : (C(x, y) <= 0 /\ C(y, z) <= 0) => C(x, z) <= 0
Antisym(C(_, _)) == \A x, y \in Names : C(x, y) = -C(y, x)
TotalPreorder == IF Transitive(CmpCode) /\ Antisym(CmpCode) THEN TRUE
                 ELSE PrintT(<<"ORDER", ToJson({<<x, y, z>> \in Names \X Names \X Names : CmpCode(x, y) < 0 /\ CmpCode(y, z) < 0 /\ CmpCode(z, x) < 0})>>)

\* ------------------------------------------------------------------ (2) cases
Perms(S) == {f \in [1..Cardinality(S) -> S] : \A i, j \in 1..Cardinality(S) : i # j => f[i] # f[j]}
PkgCases == UNION {{[fam |-> "pkg", group |-> SetToSortSeq(S, LAMBDA u, w : NameInfo[u].full < NameInfo[w].full), perm |-> pp] : pp \in Perms(S)} :
                     S \in {T \in SUBSET Names : Cardinality(T) >= 2 /\ Cardinality(T) <= MaxSize}}
\* BSW parameter values: [def, val, idx]; equal keys are allowed (siblings identical except for nothing at all)
Params == {[def |-> d, val |-> v, idx |-> i] : d \in {"x", "y"}, v \in {"1", "2"}, i \in {"", "1", "2"}}
\* distinct parameter records in every arrangement, plus pairs with one repeated element
ParamKey(p) == p.def \o "/" \o p.idx \o "/" \o p.val
EcucCases == UNION {{[fam |-> "ecuc", group |-> SetToSortSeq({ParamKey(e) : e \in S}, LAMBDA u, w : TRUE), perm |-> [i \in 1..Cardinality(S) |-> f[i]]] : f \in Perms(S)} :
                      S \in {T \in SUBSET Params : Cardinality(T) >= 2 /\ Cardinality(T) <= (IF MaxSize > 3 THEN 3 ELSE 2)}}
\* mixed kinds inside one bag: names x {SYSTEM-SIGNAL, I-SIGNAL}
MixItems == {[k |-> k, n |-> n] : k \in {"SYSTEM-SIGNAL", "I-SIGNAL"}, n \in {"a2", "a10", "b"}}
MixCases == UNION {{[fam |-> "mixed", group |-> SetToSortSeq({e.k \o ":" \o e.n : e \in S}, LAMBDA u, w : TRUE), perm |-> [i \in 1..Cardinality(S) |-> f[i]]] : f \in Perms(S)} :
                     S \in {T \in SUBSET MixItems : Cardinality(T) >= 2 /\ Cardinality(T) <= 3 /\ \A e1, e2 \in T : e1 # e2 => e1.n # e2.n}}
\* siblings without any key (SDG in SDGS) are ordered by their content, which is itself sorted: every sibling is a
\* sequence of SD texts; the canonical form of a sibling has its texts in order
SdRank == [a |-> 1, b |-> 2, c |-> 3]
SdTexts == DOMAIN SdRank
NestItems == UNION {[1..n -> SdTexts] : n \in 1..2}
RECURSIVE Join(_)
Join(sq) == IF sq = <<>> THEN "" ELSE IF Len(sq) = 1 THEN sq[1] ELSE sq[1] \o "," \o Join(Tail(sq))
Canon(sq) == Join(SortSeq(sq, LAMBDA u, w : SdRank[u] < SdRank[w]))
NestGroup(S) == LET ks == {Canon(e) : e \in S} IN [k \in ks |-> Cardinality({e \in S : Canon(e) = k})]
NestCases == UNION {{[fam |-> "nested", group |-> NestGroup(S), perm |-> [i \in 1..Cardinality(S) |-> f[i]]] : f \in Perms(S)} :
                      S \in {T \in SUBSET NestItems : Cardinality(T) >= 2 /\ Cardinality(T) <= (IF MaxSize > 3 THEN 3 ELSE 2)}}
\* named siblings of which only some carry an INDEX (BSW sub containers): the index decides first, then the name
IdxItems == {[n |-> n, idx |-> i] : n \in {"a2", "a10", "b"}, i \in {"", "1", "2"}}
IdxKey(e) == e.n \o "/" \o e.idx
IdxCases == UNION {{[fam |-> "idxnamed", group |-> SetToSortSeq({IdxKey(e) : e \in S}, LAMBDA u, w : TRUE), perm |-> [i \in 1..Cardinality(S) |-> f[i]]] : f \in Perms(S)} :
                     S \in {T \in SUBSET IdxItems : Cardinality(T) >= 2 /\ Cardinality(T) <= 3 /\ \A e1, e2 \in T : e1 # e2 => e1.n # e2.n}}
\* an ordered container (ARGUMENTS): its children keep their order, and the reorderable content of EVERY child is sorted.
\* A case: per argument (names z, y, x in this order) a sequence of two distinct SDG texts
OrdInner == {sq \in [1..2 -> SdTexts] : sq[1] # sq[2]}
OrdCases == {[fam |-> "ordered", group |-> <<Canon(i1), Canon(i2), Canon(i3)>>, perm |-> <<i1, i2, i3>>] : i1 \in OrdInner, i2 \in OrdInner, i3 \in {<<"a", "b">>, <<"c", "a">>}}
\* mixed content is not reorderable: text runs and inline elements stay where they are
MixedContent == {<<"c:one", "e:TT", "c:two", "e:XREF-TARGET">>, <<"e:XREF-TARGET", "e:TT">>, <<"e:TT", "c:b", "e:TT", "c:a">>, <<"c:z", "e:XREF-TARGET", "e:TT">>}
MixedCases == {[fam |-> "mixedcontent", group |-> it, perm |-> it] : it \in MixedContent}
Cases == PkgCases \cup EcucCases \cup MixCases \cup NestCases \cup IdxCases \cup OrdCases \cup MixedCases

\* ------------------------------------------------------------------ (3) judging results of the real library
\* result record: [fam, group, before (keys), after (keys), after2 (keys), res (result class), sub (subtree digests before/after as sets)]
ASSUME Mode # "judge" \/ TLCSet(9, ndJsonDeserialize(IOEnv.RESULTS))
Log == TLCGet(9)
Bag(sq) == [k \in {sq[i] : i \in 1..Len(sq)} |-> Cardinality({i \in 1..Len(sq) : sq[i] = k})]
\* cbefore / cafter: the sibling keys with the content of every sibling in canonical order (= before / after except for nested siblings)
SortPermutesOnly(r) == Bag(r.cafter) = Bag(r.cbefore) /\ r.subafter = r.subbefore
SortIdempotent(r) == r.after2 = r.after
\* the children of an ordered container are not permuted (fixed: their names in content order; <<>> for the other families)
OrderedKept(r) == r.fixedafter = r.fixedbefore
SortNeverFails(r) == r.res = "ok"
\* all results of one group (same siblings in different initial orders) agree
OrderIndependent(j) == \A i \in 1..Len(Log) : (i < j /\ Log[i].fam = Log[j].fam /\ Log[i].group = Log[j].group) => Log[i].after = Log[j].after

VARIABLE x
Report(j, pred) == PrintT(<<"V", ToJson([step |-> j, pred |-> pred, prop |-> "C14", fam |-> Log[j].fam, group |-> Log[j].group,
                                          before |-> Log[j].before, after |-> Log[j].after, after2 |-> Log[j].after2, res |-> Log[j].res])>>)
Judge(j) == LET r == Log[j] IN
            /\ IF SortPermutesOnly(r) THEN TRUE ELSE Report(j, "SortPermutesOnly")
            /\ IF SortIdempotent(r) THEN TRUE ELSE Report(j, "SortIdempotent")
            /\ IF SortNeverFails(r) THEN TRUE ELSE Report(j, "SortNeverFails")
            /\ IF OrderedKept(r) THEN TRUE ELSE Report(j, "OrderedKept")
            /\ IF OrderIndependent(j) THEN TRUE ELSE Report(j, "OrderIndependent")

Init == CASE Mode = "order" -> x = 0 /\ TotalPreorder
          [] Mode = "gen" -> x \in Cases /\ PrintT(<<"I", ToJson(x)>>)
          [] OTHER -> x = 1 /\ (IF Len(Log) >= 1 THEN Judge(1) ELSE TRUE)
Next == Mode = "judge" /\ x < Len(Log) /\ x' = x + 1 /\ Judge(x + 1)
Spec == Init /\ [][Next]_x
=============================================================================
