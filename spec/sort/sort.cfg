SPECIFICATION Spec
CHECK_DEADLOCK FALSE
CONSTANTS
  Mode = "gen"
  MaxSize = 3
