------------------------------ MODULE DocTrace ------------------------------
(* Evaluation side of the document engine: the properties C01, C02, C08 as predicates over one result record  *)
(* (input description, outcome of strict load, lenient load and header check on the real library).            *)
EXTENDS Integers, Sequences, FiniteSets, TLC, Json, IOUtils

VARIABLE l
ASSUME TLCSet(8, ndJsonDeserialize(IOEnv.RESULTS))
Log == TLCGet(8)

Bad == {"panic", "hang", "abort", "tool"}
\* ---------------------------------------------------------------- C02
Total(r) == r.strict.t \notin Bad /\ r.lenient.t \notin Bad /\ r.check.t \notin Bad
LineOf(o) == o.line
LineOK(r) ==
  /\ (r.strict.t = "err" /\ r.strict.k \notin {"DuplicateFilenameError"}) => (1 <= r.strict.line /\ r.strict.line <= r.nlines)
  /\ (r.lenient.t = "err") => (1 <= r.lenient.line /\ r.lenient.line <= r.nlines)
  /\ (r.lenient.t = "ok") => \A j \in 1..Len(r.lenient.warn) : 1 <= r.lenient.warn[j].line /\ r.lenient.warn[j].line <= r.nlines
HeaderCheckAccepts(r) == (r.strict.t = "ok" \/ r.lenient.t = "ok") => (r.check.t = "ok" /\ r.check.v)
\* ---------------------------------------------------------------- C08
Agree1(r) == /\ (r.strict.t = "ok") <=> (r.lenient.t = "ok" /\ r.lenient.warn = <<>>)
             /\ (r.strict.t = "ok" /\ r.lenient.t = "ok") => r.strict.d = r.lenient.d
Agree2(r) == (r.lenient.t = "ok" /\ r.lenient.warn # <<>>) => (r.strict.t = "err" /\ r.strict.msg = r.lenient.warn[1].msg)
Agree3(r) == (r.lenient.t = "err") => (r.strict.t = "err")
NoHoles(r) == (r.kind = "defect") => (r.strict.t = "err")
\* ---------------------------------------------------------------- C01
Faithful(r) == (r.kind = "doc") =>
                 /\ r.strict.t = "ok" /\ r.strict.proj = r.exp
                 /\ r.lenient.t = "ok" /\ r.lenient.warn = <<>> /\ r.lenient.proj = r.exp
RoundTripOne(o) == (o.t = "ok") => (o.rt.t = "ok" /\ o.rt.d2 = o.d /\ o.rt.s2 = o.rt.s1)
RoundTrip(r) == RoundTripOne(r.strict) /\ RoundTripOne(r.lenient)

Props(r) == [Total |-> Total(r), LineOK |-> LineOK(r), HeaderCheckAccepts |-> HeaderCheckAccepts(r),
             Agree1 |-> Agree1(r), Agree2 |-> Agree2(r), Agree3 |-> Agree3(r), NoHoles |-> NoHoles(r),
             Faithful |-> Faithful(r), RoundTrip |-> RoundTrip(r)]
PropertyOf(p) == CASE p \in {"Total", "LineOK", "HeaderCheckAccepts"} -> "C02"
                   [] p \in {"Agree1", "Agree2", "Agree3", "NoHoles"} -> "C08"
                   [] OTHER -> "C01"
Check(j) == LET r == Log[j]
                ps == Props(r) IN
            \A k \in DOMAIN ps : IF ps[k] THEN TRUE
                                 ELSE PrintT(<<"V", ToJson([step |-> j, pred |-> k, prop |-> PropertyOf(k), id |-> r.id, kind |-> r.kind, cls |-> r.cls,
                                                            strict |-> [t |-> r.strict.t, k |-> r.strict.k, line |-> r.strict.line, msg |-> r.strict.msg],
                                                            lenient |-> [t |-> r.lenient.t, k |-> r.lenient.k, line |-> r.lenient.line, warn |-> r.lenient.warn],
                                                            nlines |-> r.nlines, text |-> r.text])>>)
Init == l = 1 /\ (IF Len(Log) >= 1 THEN Check(1) ELSE TRUE)
Next == l < Len(Log) /\ l' = l + 1 /\ Check(l + 1)
Spec == Init /\ [][Next]_l
Consumed == IF TLCGet("stats").diameter >= Len(Log) THEN TRUE ELSE PrintT(<<"NOTCONSUMED", TLCGet("stats").diameter, Len(Log)>>)
=============================================================================
