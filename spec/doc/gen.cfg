SPECIFICATION Spec
CHECK_DEADLOCK FALSE
CONSTANTS
  Mode = "docs"
  MaxLen = 3
