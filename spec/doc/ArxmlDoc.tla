------------------------------ MODULE ArxmlDoc ------------------------------
(* Abstract ARXML documents, the rendering relation  Render(doc, style)  (quote style, insignificant        *)
(* whitespace, entity / decimal / hexadecimal character reference / literal encoding, <X/> vs <X></X>,        *)
(* comments, header variants), the expected abstract reading  Expected(doc)  (the document itself), and the   *)
(* documented recoverable defect classes as render-time injections.  Bytes outside printable ASCII and the    *)
(* brace itself are written {hh} (two hex digits); the harness only substitutes them.                         *)
EXTENDS Integers, Sequences, FiniteSets, TLC

\* --------------------------------------------------------------------------------- logical characters and their encodings
\* a text is a sequence of logical characters (one-character strings, or the names below)
\* NBSP / IDSP: the no-break space U+00A0 and the ideographic space U+3000 - white space to Unicode, ordinary characters to XML
Special == {"&", "<", ">", "'", "\"", "EACUTE", "SMILE", "NBSP", "IDSP"}
Lit(ch) == CASE ch = "EACUTE" -> "{c3}{a9}" [] ch = "SMILE" -> "{f0}{9f}{98}{80}" [] ch = "NBSP" -> "{c2}{a0}" [] ch = "IDSP" -> "{e3}{80}{80}" [] OTHER -> ch
Ent(ch) == CASE ch = "&" -> "&amp;" [] ch = "<" -> "&lt;" [] ch = ">" -> "&gt;" [] ch = "'" -> "&apos;" [] ch = "\"" -> "&quot;"
             [] ch = "EACUTE" -> "&#233;" [] ch = "SMILE" -> "&#128512;" [] ch = "NBSP" -> "&#160;" [] ch = "IDSP" -> "&#12288;" [] OTHER -> ch
Dec(ch) == CASE ch = "&" -> "&#38;" [] ch = "<" -> "&#60;" [] ch = ">" -> "&#62;" [] ch = "'" -> "&#39;" [] ch = "\"" -> "&#34;"
             [] ch = "EACUTE" -> "&#233;" [] ch = "SMILE" -> "&#128512;" [] ch = "NBSP" -> "&#160;" [] ch = "IDSP" -> "&#12288;" [] OTHER -> ch
Hex(ch) == CASE ch = "&" -> "&#x26;" [] ch = "<" -> "&#x3c;" [] ch = ">" -> "&#x3E;" [] ch = "'" -> "&#x27;" [] ch = "\"" -> "&#x22;"
             [] ch = "EACUTE" -> "&#xe9;" [] ch = "SMILE" -> "&#x1F600;" [] ch = "NBSP" -> "&#xa0;" [] ch = "IDSP" -> "&#x3000;" [] OTHER -> ch
\* what XML allows literally: '&' and '<' never; a quote only inside the other kind of quotes
MayBeLiteral(ch, ctx) == ch \notin {"&", "<"} /\ ~(ctx = "dq" /\ ch = "\"") /\ ~(ctx = "sq" /\ ch = "'")
EncChar(ch, mode, ctx) ==
  IF ch \notin Special THEN ch
  ELSE CASE mode = "lit" -> IF MayBeLiteral(ch, ctx) THEN Lit(ch) ELSE Ent(ch)
         [] mode = "ent" -> Ent(ch) [] mode = "dec" -> Dec(ch) [] OTHER -> Hex(ch)
RECURSIVE EncText(_, _, _)
EncText(txt, mode, ctx) == IF txt = <<>> THEN "" ELSE EncChar(Head(txt), mode, ctx) \o EncText(Tail(txt), mode, ctx)
RECURSIVE Plain(_)
Plain(txt) == IF txt = <<>> THEN "" ELSE Lit(Head(txt)) \o Plain(Tail(txt))

\* --------------------------------------------------------------------------------- documents
\* node: [id, n (element name), a (sequence of [n, v]), c (<<>> or <<comment>>), i (items: [t |-> "e", e |-> node] / [t |-> "c", v |-> text])]
E(id, name, attrs, items) == [id |-> id, n |-> name, a |-> attrs, c |-> <<>>, i |-> items]
EC(id, name, attrs, cmt, items) == [id |-> id, n |-> name, a |-> attrs, c |-> <<cmt>>, i |-> items]
Ch(node) == [t |-> "e", e |-> node]
Tx(txt) == [t |-> "c", v |-> txt]
A(n, v) == [n |-> n, v |-> v]
Leaf(id, name, txt) == E(id, name, <<>>, <<Tx(txt)>>)
S(str) == <<str>>          \* a text consisting of one ordinary "character" (any plain string without specials)

RootAttrs(xsd) == <<A("xsi:schemaLocation", S("http://autosar.org/schema/r4.0 " \o xsd)), A("xmlns", S("http://autosar.org/schema/r4.0")),
                    A("xmlns:xsi", S("http://www.w3.org/2001/XMLSchema-instance"))>>

\* D1: packages, elements, enum / pattern / reference values, attributes, comments, mixed content with every special character
D1 == E(1, "AUTOSAR", RootAttrs("AUTOSAR_00050.xsd"), <<Ch(
        E(2, "AR-PACKAGES", <<>>, <<Ch(
          E(3, "AR-PACKAGE", <<A("UUID", <<"NBSP", "u", "&", "1", "IDSP">>)>>, <<
             Ch(Leaf(4, "SHORT-NAME", S("a"))),
             Ch(E(5, "DESC", <<>>, <<Ch(E(6, "L-2", <<A("L", S("EN"))>>,
                    <<Tx(<<"x", "&", "y", " ", "<", "t", ">", " ", "'", "\"", " ", "EACUTE", "SMILE">>),
                      \* an inline element of mixed content with a comment of its own
                      Ch(EC(7, "TT", <<>>, "note", <<Tx(S("tech"))>>)), Tx(<<" ", "e", "n", "d">>)>>))>>)),
             Ch(Leaf(8, "CATEGORY", S("TXT"))),
             Ch(E(21, "ADMIN-DATA", <<>>, <<Ch(E(25, "DOC-REVISIONS", <<>>, <<Ch(E(26, "DOC-REVISION", <<>>,
                    <<Ch(Leaf(27, "REVISION-LABEL", <<"1", ".", "0", ".", "0", ";", "a", "&", "l", "t", ";", "b">>))>>))>>)), Ch(E(22, "SDGS", <<>>, <<Ch(E(23, "SDG", <<A("GID", S("g"))>>,
                    <<Ch(E(24, "SD", <<A("GID", <<"k", "EACUTE", "&">>)>>, <<Tx(<<" ", " ", "k", "e", "e", "p", "&", "EACUTE", " ">>)>>))>>))>>))>>)),
             Ch(E(9, "ELEMENTS", <<>>, <<
                 Ch(EC(10, "SYSTEM-SIGNAL", <<>>, " a signal ", <<Ch(Leaf(11, "SHORT-NAME", S("s"))), Ch(Leaf(12, "DYNAMIC-LENGTH", S("true")))>>)),
                 Ch(E(13, "I-SIGNAL", <<>>, <<Ch(Leaf(14, "SHORT-NAME", S("i"))), Ch(Leaf(15, "DATA-TYPE-POLICY", S("LEGACY"))),
                        Ch(Leaf(16, "LENGTH", S("8"))),
                        Ch(E(17, "SYSTEM-SIGNAL-REF", <<A("DEST", S("SYSTEM-SIGNAL"))>>, <<Tx(S("/a/s"))>>))>>)),
                 Ch(E(18, "SYSTEM", <<>>, <<Ch(Leaf(19, "SHORT-NAME", S("sys"))), Ch(E(20, "FIBEX-ELEMENTS", <<>>, <<>>))>>)),
                 \* float-typed values: a finite one and the negative infinity
                 Ch(E(28, "UNIT", <<>>, <<Ch(Leaf(29, "SHORT-NAME", S("u"))), Ch(Leaf(30, "FACTOR-SI-TO-UNIT", <<"1", ".", "5">>)),
                        Ch(Leaf(31, "OFFSET-SI-TO-UNIT", <<"-", "I", "N", "F">>))>>))
               >>))
          >>))>>))>>)
\* D2: oldest version, nested packages, an empty ELEMENTS
D2 == E(1, "AUTOSAR", RootAttrs("AUTOSAR_4-0-1.xsd"), <<Ch(
        E(2, "AR-PACKAGES", <<>>, <<Ch(
          E(3, "AR-PACKAGE", <<>>, <<
             Ch(Leaf(4, "SHORT-NAME", S("p"))),
             Ch(E(5, "ELEMENTS", <<>>, <<Ch(E(6, "SYSTEM-SIGNAL", <<>>, <<Ch(Leaf(7, "SHORT-NAME", S("s1")))>>))>>)),
             Ch(E(8, "AR-PACKAGES", <<>>, <<Ch(E(9, "AR-PACKAGE", <<>>, <<Ch(Leaf(10, "SHORT-NAME", S("q"))), Ch(E(11, "ELEMENTS", <<>>, <<>>))>>))>>))
          >>))>>))>>)
Docs == <<D1, D2>>

\* --------------------------------------------------------------------------------- styles
\* [q: "dq"|"sq", ws: "none"|"nl"|"crlf"|"tagsp", empty: "self"|"pair", enc: "lit"|"ent"|"dec"|"hex", hdr: header variant]
Rep16(x) == LET a == x \o x b == a \o a c == b \o b IN c \o c
Header(h) == CASE h = "plain" -> "<?xml version=\"1.0\" encoding=\"utf-8\"?>"
               [] h = "sa" -> "<?xml version=\"1.0\" encoding=\"utf-8\" standalone=\"yes\"?>"
               [] h = "bom" -> "{ef}{bb}{bf}<?xml version=\"1.0\" encoding=\"utf-8\"?>"
               [] h = "sq" -> "<?xml version='1.0' encoding='utf-8'?>"
               [] h = "upper" -> "<?xml version=\"1.0\" encoding=\"UTF-8\"?>"
               \* a banner of more than 4 KiB (processing instructions, blank lines) before the root element; a comment there would be the root's comment
               [] h = "banner" -> "<?xml version=\"1.0\" encoding=\"utf-8\"?>\n<?banner " \o Rep16(Rep16(Rep16("licence "))) \o "?>\n<?tool generated?>\n\n"
               [] OTHER -> ""
Styles == {[q |-> q, ws |-> w, empty |-> e, enc |-> c, hdr |-> h] :
             q \in {"dq", "sq"}, w \in {"none", "nl", "crlf", "tagsp"}, e \in {"self", "pair"}, c \in {"lit", "ent", "dec", "hex"},
             h \in {"plain", "sa", "bom", "sq", "upper", "banner"}}
Quote(st) == IF st.q = "dq" THEN "\"" ELSE "'"
RECURSIVE Indent(_)
Indent(d) == IF d = 0 THEN "" ELSE "  " \o Indent(d - 1)
Ws(st, d) == IF d < 0 THEN "" ELSE
            CASE st.ws = "nl" -> "\n" \o Indent(d) [] st.ws = "crlf" -> "\r\n" \o Indent(d) [] OTHER -> ""
TagSp(st) == IF st.ws = "tagsp" THEN " " ELSE ""
ElementOnly(node) == \A j \in 1..Len(node.i) : node.i[j].t = "e"

\* --------------------------------------------------------------------------------- defects (render-time injections)
\* df = [k |-> kind, at |-> node id, p |-> parameter]; kinds:
\*  "none"; "child": raw text p inserted as first child of node at; "lastchild": ... as last child;
\*  "attr": raw attribute text p added to the start tag of node at; "dropattr": attribute named p of node at omitted;
\*  "dropchild": the child element named p of node at omitted; "dupchild": the child element named p rendered twice;
\*  "text": the text of (leaf) node at replaced by raw text p; "after": raw text p after the root end tag; "xsd": schema file name p
NoDefect == [k |-> "none", at |-> 0, p |-> ""]

RECURSIVE RenderAttrs(_, _, _, _)
RenderAttrs(node, attrs, st, df) ==
  IF attrs = <<>> THEN (IF df.k = "attr" /\ df.at = node.id THEN " " \o df.p ELSE "")
  ELSE LET a == Head(attrs)
           val == IF df.k = "xsd" /\ node.id = 1 /\ a.n = "xsi:schemaLocation" THEN "http://autosar.org/schema/r4.0 " \o df.p
                  ELSE EncText(a.v, st.enc, st.q) IN
       (IF df.k = "dropattr" /\ df.at = node.id /\ df.p = a.n THEN ""
        ELSE " " \o a.n \o "=" \o Quote(st) \o val \o Quote(st))
       \o RenderAttrs(node, Tail(attrs), st, df)

RECURSIVE RenderNode(_, _, _, _)
RECURSIVE RenderItems(_, _, _, _, _)
RenderNode(node, st, d, df) ==
  LET cmt == IF node.c = <<>> THEN "" ELSE "<!--" \o node.c[1] \o "-->" \o Ws(st, d)
      open == "<" \o node.n \o RenderAttrs(node, node.a, st, df)
      eo == ElementOnly(node)
      first == IF df.k = "child" /\ df.at = node.id THEN (IF eo THEN Ws(st, d + 1) ELSE "") \o df.p ELSE ""
      last == IF df.k = "lastchild" /\ df.at = node.id THEN (IF eo THEN Ws(st, d + 1) ELSE "") \o df.p ELSE ""
      body == IF df.k = "text" /\ df.at = node.id THEN df.p ELSE first \o RenderItems(node, node.i, st, d + 1, df) \o last
  IN cmt \o
     (IF body = "" /\ st.empty = "self" THEN open \o TagSp(st) \o "/>"
      ELSE open \o TagSp(st) \o ">" \o body \o (IF eo /\ body # "" THEN Ws(st, d) ELSE "") \o "</" \o node.n \o TagSp(st) \o ">")
RenderItems(node, items, st, d, df) ==
  IF items = <<>> THEN ""
  ELSE LET it == Head(items) IN
       (IF it.t = "c" THEN EncText(it.v, st.enc, "text")
        ELSE IF df.k = "dropchild" /\ df.at = node.id /\ df.p = it.e.n THEN ""
        \* (an inline element of mixed content gets no formatting white space, neither before it nor after its comment)
        ELSE LET r == (IF ElementOnly(node) THEN Ws(st, d) ELSE "") \o RenderNode(it.e, st, IF ElementOnly(node) THEN d ELSE -1, df) IN
             IF df.k = "dupchild" /\ df.at = node.id /\ df.p = it.e.n THEN r \o r ELSE r)
       \o RenderItems(node, Tail(items), st, d, df)

Render(doc, st, df) == Header(st.hdr) \o Ws(st, 0) \o RenderNode(doc, st, 0, df) \o (IF df.k = "after" THEN df.p ELSE "") \o Ws(st, 0)

\* --------------------------------------------------------------------------------- the expected reading
\* Insignificant whitespace (DESIGN 6.1): leading / trailing blanks of a text run whose value type does not preserve
\* white space.  The root's xsi:schemaLocation is rewritten by every serialize() and is not part of the reading (6.21).
PreserveWs == {"SD"}
RECURSIVE TrimL(_)
TrimL(txt) == IF txt # <<>> /\ Head(txt) = " " THEN TrimL(Tail(txt)) ELSE txt
RECURSIVE TrimR(_)
TrimR(txt) == IF txt # <<>> /\ txt[Len(txt)] = " " THEN TrimR(SubSeq(txt, 1, Len(txt) - 1)) ELSE txt
RECURSIVE Expected(_)
RECURSIVE ExpectedItems(_, _)
Expected(node) ==
  LET at == SelectSeq(node.a, LAMBDA a : ~(node.id = 1 /\ a.n = "xsi:schemaLocation")) IN
  [n |-> node.n, a |-> [j \in 1..Len(at) |-> [n |-> at[j].n, v |-> Plain(at[j].v)]], c |-> node.c, i |-> ExpectedItems(node.n, node.i)]
ExpectedItems(name, items) ==
  IF items = <<>> THEN <<>>
  ELSE <<IF Head(items).t = "c" THEN [t |-> "c", v |-> Plain(IF name \in PreserveWs THEN Head(items).v ELSE TrimR(TrimL(Head(items).v)))]
         ELSE [t |-> "e", e |-> Expected(Head(items).e)]>>
       \o ExpectedItems(name, Tail(items))

\* --------------------------------------------------------------------------------- defect instances: each makes the document invalid by the documented rules
LongName == "a234567890123456789012345678901234567890123456789012345678901234567890123456789012345678901234567890123456789012345678901234567890"
ChoiceConflictXml == "<DIAGNOSTIC-CONTRIBUTION-SET><SHORT-NAME>dcs</SHORT-NAME><COMMON-PROPERTIES><DIAGNOSTIC-COMMON-PROPS-VARIANTS><DIAGNOSTIC-COMMON-PROPS-CONDITIONAL><DEBOUNCE-ALGORITHM-PROPSS><DIAGNOSTIC-DEBOUNCE-ALGORITHM-PROPS><SHORT-NAME>props</SHORT-NAME><DEBOUNCE-ALGORITHM><DIAG-EVENT-DEBOUNCE-COUNTER-BASED><SHORT-NAME>abc</SHORT-NAME></DIAG-EVENT-DEBOUNCE-COUNTER-BASED><DIAG-EVENT-DEBOUNCE-TIME-BASED><SHORT-NAME>def</SHORT-NAME></DIAG-EVENT-DEBOUNCE-TIME-BASED></DEBOUNCE-ALGORITHM></DIAGNOSTIC-DEBOUNCE-ALGORITHM-PROPS></DEBOUNCE-ALGORITHM-PROPSS></DIAGNOSTIC-COMMON-PROPS-CONDITIONAL></DIAGNOSTIC-COMMON-PROPS-VARIANTS></COMMON-PROPERTIES></DIAGNOSTIC-CONTRIBUTION-SET>"
\* an exclusive choice that is a group nested inside a sequence type (COMPU-SCALE: constant or rational coefficients)
ChoiceConflict2Xml == "<COMPU-METHOD><SHORT-NAME>cm</SHORT-NAME><COMPU-INTERNAL-TO-PHYS><COMPU-SCALES><COMPU-SCALE><COMPU-CONST><VT>x</VT></COMPU-CONST><COMPU-RATIONAL-COEFFS><COMPU-NUMERATOR><V>1</V></COMPU-NUMERATOR></COMPU-RATIONAL-COEFFS></COMPU-SCALE></COMPU-SCALES></COMPU-INTERNAL-TO-PHYS></COMPU-METHOD>"
NotANumberXml == "<I-SIGNAL-I-PDU><SHORT-NAME>Pdu</SHORT-NAME><I-PDU-TIMING-SPECIFICATIONS><I-PDU-TIMING><TRANSMISSION-MODE-DECLARATION><TRANSMISSION-MODE-TRUE-TIMING><CYCLIC-TIMING><TIME-PERIOD><TOLERANCE><ABSOLUTE-TOLERANCE><ABSOLUTE>not a number</ABSOLUTE></ABSOLUTE-TOLERANCE></TOLERANCE></TIME-PERIOD></CYCLIC-TIMING></TRANSMISSION-MODE-TRUE-TIMING></TRANSMISSION-MODE-DECLARATION></I-PDU-TIMING></I-PDU-TIMING-SPECIFICATIONS></I-SIGNAL-I-PDU>"
\* <<document index, name of the defect class, defect>>
DefectsD1 == {
  <<1, "unknown element", [k |-> "child", at |-> 9, p |-> "<BOGUS-ELEMENT/>"]>>,
  <<1, "element unknown in context", [k |-> "lastchild", at |-> 3, p |-> "<SYSTEM-SIGNAL><SHORT-NAME>zz</SHORT-NAME></SYSTEM-SIGNAL>"]>>,
  <<1, "unknown attribute", [k |-> "attr", at |-> 10, p |-> "BOGUS=\"1\""]>>,
  <<1, "attribute unknown in context", [k |-> "attr", at |-> 8, p |-> "DEST=\"SYSTEM-SIGNAL\""]>>,
  <<1, "unknown enum value", [k |-> "text", at |-> 15, p |-> "NO-SUCH-ITEM"]>>,
  <<1, "enum value unknown in context", [k |-> "text", at |-> 15, p |-> "SYSTEM-SIGNAL"]>>,
  <<1, "exclusive choice conflict", [k |-> "lastchild", at |-> 9, p |-> ChoiceConflictXml]>>,
  <<1, "exclusive choice conflict", [k |-> "lastchild", at |-> 9, p |-> ChoiceConflict2Xml]>>,
  <<1, "repeated single-occurrence element", [k |-> "dupchild", at |-> 3, p |-> "CATEGORY"]>>,
  <<1, "repeated single-occurrence element", [k |-> "dupchild", at |-> 13, p |-> "LENGTH"]>>,
  \* the repetition is separated from the first occurrence by other sub elements
  <<1, "repeated single-occurrence element (separated)", [k |-> "lastchild", at |-> 3, p |-> "<CATEGORY>TXT</CATEGORY>"]>>,
  <<1, "repeated single-occurrence element (separated)", [k |-> "lastchild", at |-> 13, p |-> "<LENGTH>8</LENGTH>"]>>,
  <<1, "repeated single-occurrence element (separated)", [k |-> "lastchild", at |-> 10, p |-> "<SHORT-NAME>s</SHORT-NAME>"]>>,
  <<1, "repeated single-occurrence element (separated)", [k |-> "lastchild", at |-> 3, p |-> "<ELEMENTS/>"]>>,
  <<1, "repeated single-occurrence element (separated)", [k |-> "child", at |-> 3, p |-> "<CATEGORY>TXT</CATEGORY>"]>>,
  <<1, "missing SHORT-NAME", [k |-> "dropchild", at |-> 10, p |-> "SHORT-NAME"]>>,
  <<1, "missing SHORT-NAME", [k |-> "dropchild", at |-> 3, p |-> "SHORT-NAME"]>>,
  <<1, "missing required attribute", [k |-> "dropattr", at |-> 17, p |-> "DEST"]>>,
  <<1, "missing required attribute", [k |-> "dropattr", at |-> 6, p |-> "L"]>>,
  <<1, "value too long", [k |-> "text", at |-> 11, p |-> LongName]>>,
  <<1, "pattern mismatch", [k |-> "text", at |-> 11, p |-> "1abc"]>>,
  <<1, "pattern mismatch", [k |-> "text", at |-> 12, p |-> "maybe"]>>,
  <<1, "not a number", [k |-> "lastchild", at |-> 9, p |-> NotANumberXml]>>,
  <<1, "malformed entity", [k |-> "text", at |-> 7, p |-> "a&bogus;b"]>>,
  <<1, "malformed entity", [k |-> "text", at |-> 7, p |-> "a&#xZZ;b"]>>,
  <<1, "malformed entity", [k |-> "text", at |-> 7, p |-> "a&amp b"]>>,
  <<1, "data after the root element", [k |-> "after", at |-> 0, p |-> "<EXTRA/>"]>>,
  <<1, "data after the root element", [k |-> "after", at |-> 0, p |-> "trailing"]>>,
  <<1, "non-schema version label", [k |-> "xsd", at |-> 1, p |-> "AUTOSAR_9-9-9.xsd"]>>,
  <<1, "non-schema version label", [k |-> "xsd", at |-> 1, p |-> "autosar.xsd"]>>,
  \* multi-byte characters at and around the end of the "AUTOSAR" prefix of the schema file name
  <<1, "non-schema version label", [k |-> "xsd", at |-> 1, p |-> "AUTOSA{c3}{a9}_00050.xsd"]>>,
  <<1, "non-schema version label", [k |-> "xsd", at |-> 1, p |-> "AUTOS{e2}{82}{ac}_00050.xsd"]>>,
  <<1, "non-schema version label", [k |-> "xsd", at |-> 1, p |-> "AUTOSAR_{c3}{a9}.xsd"]>>,
  <<1, "non-schema version label", [k |-> "xsd", at |-> 1, p |-> "{c3}{a9}.xsd"]>>,
  \* trailing data hidden behind something that may legally follow the root element
  <<1, "data after the root element", [k |-> "after", at |-> 0, p |-> "<!-- x --><EXTRA/>"]>>,
  <<1, "data after the root element", [k |-> "after", at |-> 0, p |-> "<!-- x -->trailing"]>>,
  <<1, "data after the root element", [k |-> "after", at |-> 0, p |-> "<?pi?><EXTRA/>"]>>,
  <<1, "data after the root element", [k |-> "after", at |-> 0, p |-> "\n<!-- x -->\n<AUTOSAR/>"]>>,
  \* a comment over several lines with a > before a line end: the lines are counted once
  <<1, "data after the root element", [k |-> "after", at |-> 0, p |-> "\n<!-- a > b\n c > d\n e -->\n<EXTRA/>"]>>,
  <<1, "unknown element", [k |-> "lastchild", at |-> 9, p |-> "<!-- <A>\n<B>\n -->\n<BOGUS-ELEMENT/>"]>>,
  \* an attribute that the root element does not have
  <<1, "unknown attribute", [k |-> "attr", at |-> 1, p |-> "xmlns:vendor=\"urn:x\""]>>,
  \* an ampersand that starts no entity at all
  <<1, "malformed entity", [k |-> "text", at |-> 7, p |-> "R & D"]>>,
  <<1, "malformed entity", [k |-> "text", at |-> 7, p |-> "AT&T"]>>,
  <<1, "malformed entity", [k |-> "text", at |-> 7, p |-> "a&"]>>,
  <<1, "malformed entity", [k |-> "attr", at |-> 10, p |-> "UUID=\"R & D\""]>> }
DefectsD2 == {
  <<2, "element not in the file's version", [k |-> "lastchild", at |-> 6, p |-> "<SHORT-NAME-FRAGMENTS/>"]>>,
  \* a version-foreign element that is defined in a nested group of its parent (SDXF in SDG: since 4.2.1)
  <<2, "element not in the file's version", [k |-> "lastchild", at |-> 3, p |-> "<ADMIN-DATA><SDGS><SDG GID=\"g\"><SDXF/></SDG></SDGS></ADMIN-DATA>"]>>,
  <<2, "attribute not in the file's version", [k |-> "attr", at |-> 7, p |-> "NAME-PATTERN=\"x\""]>>,
  <<2, "enum value not in the file's version", [k |-> "lastchild", at |-> 5, p |-> "<I-SIGNAL><SHORT-NAME>i</SHORT-NAME><DATA-TYPE-POLICY>TRANSFORMING-I-SIGNAL</DATA-TYPE-POLICY></I-SIGNAL>"]>>,
  <<2, "missing SHORT-NAME", [k |-> "dropchild", at |-> 9, p |-> "SHORT-NAME"]>>,
  <<2, "repeated single-occurrence element", [k |-> "dupchild", at |-> 3, p |-> "ELEMENTS"]>>,
  <<2, "repeated single-occurrence element (separated)", [k |-> "lastchild", at |-> 3, p |-> "<ELEMENTS/>"]>>,
  <<2, "repeated single-occurrence element (separated)", [k |-> "lastchild", at |-> 9, p |-> "<SHORT-NAME>q</SHORT-NAME>"]>> }
AllDefects == DefectsD1 \cup DefectsD2
=============================================================================
