------------------------------- MODULE DocGen -------------------------------
(* Generation side of the document engine: TLC enumerates (document, style), (document, defect, style) and    *)
(* short symbol strings after structural prefixes, and prints each as one JSON input line for the harness.    *)
EXTENDS ArxmlDoc, Json

CONSTANTS Mode,      \* "docs" | "defects" | "strings" | "markup" | "deep"
          MaxLen     \* length bound for Mode = "strings"
VARIABLES x

\* a representative subset of styles for the defect runs (all styles are used for the faithful-reading runs)
DefectStyles == {[q |-> "dq", ws |-> "nl", empty |-> "self", enc |-> "ent", hdr |-> "plain"],
                 [q |-> "sq", ws |-> "none", empty |-> "pair", enc |-> "hex", hdr |-> "sa"]}

\* the token alphabet of the total-loader runs and the structural prefixes they are appended to
Alphabet == {"<", ">", "/", "?", "!", "-", "=", "\"", "'", " ", "\n", "&", ";", "x"}
RawBytes == {"{ff}", "{80}", "{ef}{bb}{bf}", "#", "\r", "\t", "A", "AUTOSAR", "SHORT-NAME"}
Hdr == "<?xml version=\"1.0\" encoding=\"utf-8\"?>\n"
Root == "<AUTOSAR xsi:schemaLocation=\"http://autosar.org/schema/r4.0 AUTOSAR_00050.xsd\" xmlns=\"http://autosar.org/schema/r4.0\" xmlns:xsi=\"http://www.w3.org/2001/XMLSchema-instance\">"
Prefixes == <<"", Hdr, Hdr \o Root, Hdr \o Root \o "<AR-PACKAGES><AR-PACKAGE>", Hdr \o Root \o "<AR-PACKAGES><AR-PACKAGE><SHORT-NAME>",
              Hdr \o Root \o "<AR-PACKAGES><AR-PACKAGE UUID=", Hdr \o Root \o "<AR-PACKAGES><AR-PACKAGE UUID=\"", "<?xml ">>
RECURSIVE Cat(_)
Cat(sq) == IF sq = <<>> THEN "" ELSE Head(sq) \o Cat(Tail(sq))
Strings == UNION {[1..n -> Alphabet] : n \in 0..MaxLen} \cup UNION {[1..n -> RawBytes \cup {"<", ">"}] : n \in 1..2}

\* one markup token "<" body ">" with every short body over the characters the tokenizer dispatches on (comments, processing
\* instructions, end tags, empty-element tags, attributes), after a structural prefix and followed by a tail
MarkupAlphabet == {"!", "-", "?", "/", "x", " ", "=", "\""}
MarkupPrefixes == <<"", Hdr, Hdr \o Root, Hdr \o Root \o "<AR-PACKAGES><AR-PACKAGE>">>
MarkupTails == <<"", "x-->">>
Bodies == UNION {[1..n -> MarkupAlphabet] : n \in 0..(MaxLen + 1)}

\* pathological nesting depth: d levels of AR-PACKAGES / AR-PACKAGE
RECURSIVE Rep(_, _)
Rep(s, n) == IF n = 0 THEN "" ELSE IF n = 1 THEN s ELSE LET h == Rep(s, n \div 2) IN h \o h \o (IF n % 2 = 1 THEN s ELSE "")
Deep(d) == Hdr \o Root \o Rep("<AR-PACKAGES><AR-PACKAGE><SHORT-NAME>p</SHORT-NAME>", d) \o Rep("</AR-PACKAGE></AR-PACKAGES>", d) \o "</AUTOSAR>"
Depths == {16, 128, 1024, 2048, 4096, 8192}

Inputs ==
  CASE Mode = "deep" ->
         {[kind |-> "deep", cls |-> "nesting", d |-> d, st |-> CHOOSE st \in DefectStyles : TRUE, df |-> NoDefect, s |-> <<>>, p |-> 0] : d \in Depths}
    [] Mode = "docs" ->
         {[kind |-> "doc", cls |-> "faithful", d |-> di, st |-> st, df |-> NoDefect, s |-> <<>>, p |-> 0] : di \in 1..Len(Docs), st \in Styles}
    [] Mode = "defects" ->
         {[kind |-> "defect", cls |-> t[2], d |-> t[1], st |-> st, df |-> t[3], s |-> <<>>, p |-> 0] : t \in AllDefects, st \in DefectStyles}
    [] Mode = "markup" ->
         {[kind |-> "raw", cls |-> "markup", d |-> tl, st |-> CHOOSE st \in DefectStyles : TRUE, df |-> NoDefect, s |-> s, p |-> p] :
             s \in Bodies, p \in 1..Len(MarkupPrefixes), tl \in 1..Len(MarkupTails)}
    [] OTHER ->
         {[kind |-> "raw", cls |-> "symbols", d |-> 0, st |-> CHOOSE st \in DefectStyles : TRUE, df |-> NoDefect, s |-> s, p |-> p] :
             s \in Strings, p \in 1..Len(Prefixes)}

Line(i) ==
  IF i.kind = "deep" THEN [id |-> <<"depth", i.d>>, kind |-> "deep", cls |-> i.cls, text |-> Deep(i.d), exp |-> "", pre |-> FALSE]
  ELSE IF i.kind = "raw" /\ i.cls = "markup" THEN
       [id |-> <<i.p, i.d, i.s>>, kind |-> "raw", cls |-> i.cls, text |-> MarkupPrefixes[i.p] \o "<" \o Cat(i.s) \o ">" \o MarkupTails[i.d], exp |-> "", pre |-> FALSE]
  ELSE IF i.kind = "raw" THEN [id |-> <<i.p, i.s>>, kind |-> "raw", cls |-> i.cls, text |-> Prefixes[i.p] \o Cat(i.s), exp |-> "", pre |-> FALSE]
  ELSE [id |-> <<i.d, i.cls, i.st, i.df.k, i.df.at>>, kind |-> i.kind, cls |-> i.cls, text |-> Render(Docs[i.d], i.st, i.df),
        exp |-> IF i.kind = "doc" THEN Expected(Docs[i.d]) ELSE [n |-> ""],
        \* prefixes / substitutions are derived by the harness from a few of the rendered documents
        pre |-> (i.kind = "doc" /\ i.st.enc = "ent" /\ i.st.empty = "self" /\ i.st.hdr \in {"plain", "bom"} /\ i.st.ws \in {"nl", "none"})]

Init == x \in Inputs /\ PrintT(<<"I", ToJson(Line(x))>>)
Next == UNCHANGED x
Spec == Init /\ [][Next]_x
=============================================================================
