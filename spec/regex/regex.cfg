SPECIFICATION Spec
VIEW View
CHECK_DEADLOCK FALSE
INVARIANT TableEquiv
INVARIANT EmitTests
CONSTANTS
  SuffixLen = 2
  Emit = TRUE
