--------------------------- MODULE SplitConflict ---------------------------
(* E5, "conflicting files must be rejected": for element types T with identifiable children C (table facts:  *)
(* creation path, the versions in which path and child exist, the versions in which T is marked splittable),   *)
(* two files of one version v that both contain the same T element, one with a child named x, the other with   *)
(* a child named y.  The meta-model decides: where T is splittable in v the files are partial views and merge   *)
(* to the union; where it is not, the second file diverges from the model below a non-splittable element and    *)
(* must be rejected, leaving the model as it was.                                                               *)
EXTENDS Integers, Sequences, FiniteSets, TLC, Json, IOUtils, SplitData, SequencesExt

CONSTANTS Mode
VARIABLE x
Facts == SplitDataDef
SeqSet(s) == {s[i] : i \in 1..Len(s)}
MinOf(S) == CHOOSE v \in S : \A w \in S : v <= w
MaxOf(S) == CHOOSE v \in S : \A w \in S : v >= w
\* per fact: the oldest and the newest version with, and without, the splittable mark
PickV(S) == IF S = {} THEN {} ELSE {MinOf(S), MaxOf(S)}
Cases == UNION {{[ty |-> Facts[i].ty, path |-> Facts[i].path, child |-> Facts[i].child, ver |-> v,
                  exp |-> IF v \in SeqSet(Facts[i].split) THEN "merge" ELSE "reject"] :
                    v \in PickV(SeqSet(Facts[i].vers) \cap SeqSet(Facts[i].split)) \cup PickV(SeqSet(Facts[i].vers) \ SeqSet(Facts[i].split))} : i \in 1..Len(Facts)}

ASSUME Mode # "judge" \/ TLCSet(14, ndJsonDeserialize(IOEnv.RESULTS))
Log == TLCGet(14)
\* record: [ty, child, ver, exp, order, load1, load2 (result class), names (the children named x / y in the model afterwards), unchanged]
PartialViewsMerge(r) == (r.load1 /\ r.exp = "merge") => (r.load2 = "ok" /\ r.names = <<"x", "y">>)
ConflictRejected(r) == (r.load1 /\ r.exp = "reject") => (r.load2 = "InvalidFileMerge" /\ r.unchanged)
Judge(j) == /\ IF PartialViewsMerge(Log[j]) THEN TRUE ELSE PrintT(<<"V", ToJson([step |-> j, pred |-> "PartialViewsMerge", prop |-> "C09", r |-> Log[j]])>>)
            /\ IF ConflictRejected(Log[j]) THEN TRUE ELSE PrintT(<<"V", ToJson([step |-> j, pred |-> "ConflictRejected", prop |-> "C09", r |-> Log[j]])>>)
Init == CASE Mode = "gen" -> x \in Cases /\ PrintT(<<"I", ToJson(x)>>)
          [] OTHER -> x = 1 /\ (IF Len(Log) >= 1 THEN Judge(1) ELSE TRUE)
Next == Mode = "judge" /\ x < Len(Log) /\ x' = x + 1 /\ Judge(x + 1)
Spec == Init /\ [][Next]_x
=============================================================================
