-------------------------------- MODULE Merge --------------------------------
(* E5: merging partial views.  A master model (packages, elements, a nested package), a split that gives every *)
(* child of a splittable parent a non-empty subset of its parent's files, the per-file views with their own     *)
(* sibling order, and all load orders.  The expected merge is the master itself: every element once, attributed  *)
(* to exactly the files of the split, every file's content = its view, independent of the load order.           *)
EXTENDS Integers, Sequences, FiniteSets, TLC, Json, IOUtils, SequencesExt, FiniteSetsExt

CONSTANTS Mode, NFiles, Reorder,
          Small,    \* TRUE: the elements t and i always accompany s (a smaller family for three files)
          OldFile   \* 0, or the number of the file that has an older version (4.1.3): it cannot contain the element n, whose
                    \* kind (CONTAINER-I-PDU) that version does not know; the other files may
VARIABLE x

Files == 1..NFiles
NE(S) == (SUBSET S) \ {{}}
\* master: packages a, b at top level; a contains ELEMENTS {s, t, i} and the nested package a/p; b contains ELEMENTS {u}
\* split: files of a, b (subsets of Files); of s, t, i (subsets of fa); of p (subset of fa); of u (subset of fb)
\* (built constructively: every child's files are a non-empty subset of its parent's files, every file has some content)
TI(fs, fa) == IF Small THEN {fs} ELSE NE(fa)
NSets(fa) == IF OldFile = 0 THEN {{}} ELSE {{}} \cup NE(fa \ {OldFile})
Splits == UNION {UNION {UNION {
              {[a |-> fa, b |-> fb, s |-> fs, t |-> ft, i |-> fi, p |-> fp, u |-> fu, n |-> fn] : ft \in TI(fs, fa), fi \in TI(fs, fa), fp \in NE(fa), fu \in NE(fb),
                                                                                                   fn \in NSets(fa)} :
                 fs \in NE(fa)} : fb \in {y \in NE(Files) : fa \cup y = Files}} : fa \in NE(Files)}
Good(sp) == TRUE
Sig(n) == "<SYSTEM-SIGNAL><SHORT-NAME>" \o n \o "</SHORT-NAME></SYSTEM-SIGNAL>"
ISig(n) == "<I-SIGNAL><SHORT-NAME>" \o n \o "</SHORT-NAME></I-SIGNAL>"
Pkg(n, inner) == "<AR-PACKAGE><SHORT-NAME>" \o n \o "</SHORT-NAME>" \o inner \o "</AR-PACKAGE>"
Cip(n) == "<CONTAINER-I-PDU><SHORT-NAME>" \o n \o "</SHORT-NAME></CONTAINER-I-PDU>"
HdrOf(f) == "<?xml version=\"1.0\" encoding=\"utf-8\"?>\n<AUTOSAR xsi:schemaLocation=\"http://autosar.org/schema/r4.0 " \o (IF f = OldFile THEN "AUTOSAR_4-1-3.xsd" ELSE "AUTOSAR_00050.xsd")
            \o "\" xmlns=\"http://autosar.org/schema/r4.0\" xmlns:xsi=\"http://www.w3.org/2001/XMLSchema-instance\">"
RECURSIVE Cat(_)
Cat(sq) == IF sq = <<>> THEN "" ELSE Head(sq) \o Cat(Tail(sq))
\* the elements of a's ELEMENTS that file f sees, in the file's own order (rev = TRUE: reversed)
ElsA(sp, f, rev) == LET l == SelectSeq(<<[n |-> "s", x |-> Sig("s"), fs |-> sp.s], [n |-> "t", x |-> Sig("t"), fs |-> sp.t], [n |-> "i", x |-> ISig("i"), fs |-> sp.i],
                                         [n |-> "n", x |-> Cip("n"), fs |-> sp.n]>>,
                                       LAMBDA e : f \in e.fs) IN
                    IF rev THEN Reverse(l) ELSE l
View(sp, f, rev) ==
  LET ea == ElsA(sp, f, rev)
      pa == IF f \in sp.a THEN
                Pkg("a", (IF ea = <<>> THEN "" ELSE "<ELEMENTS>" \o Cat([j \in 1..Len(ea) |-> ea[j].x]) \o "</ELEMENTS>")
                         \o (IF f \in sp.p THEN "<AR-PACKAGES>" \o Pkg("p", "") \o "</AR-PACKAGES>" ELSE ""))
            ELSE ""
      pb == IF f \in sp.b THEN Pkg("b", IF f \in sp.u THEN "<ELEMENTS>" \o Sig("u") \o "</ELEMENTS>" ELSE "") ELSE ""
  IN HdrOf(f) \o "<AR-PACKAGES>" \o (IF rev THEN pb \o pa ELSE pa \o pb) \o "</AR-PACKAGES></AUTOSAR>"
\* expected: path -> files (as sorted sequences), for the identifiable elements
ExpectedAll(sp) == <<[p |-> "/a", f |-> SetToSortSeq(sp.a, <)], [p |-> "/a/i", f |-> SetToSortSeq(sp.i, <)], [p |-> "/a/n", f |-> SetToSortSeq(sp.n, <)],
                  [p |-> "/a/p", f |-> SetToSortSeq(sp.p, <)],
                  [p |-> "/a/s", f |-> SetToSortSeq(sp.s, <)], [p |-> "/a/t", f |-> SetToSortSeq(sp.t, <)],
                  [p |-> "/b", f |-> SetToSortSeq(sp.b, <)], [p |-> "/b/u", f |-> SetToSortSeq(sp.u, <)]>>
Expected(sp) == SelectSeq(ExpectedAll(sp), LAMBDA e : e.f # <<>>)
Perms(S) == {f \in [1..Cardinality(S) -> S] : \A i, j \in 1..Cardinality(S) : i # j => f[i] # f[j]}
\* which files present their siblings in reversed order
RevSets == IF Reorder THEN SUBSET Files ELSE {{}}
Cases == {[sp |-> sp, rev |-> rv] : sp \in {s \in Splits : Good(s)}, rv \in RevSets}
Line(c) == [id |-> [a |-> SetToSortSeq(c.sp.a, <), b |-> SetToSortSeq(c.sp.b, <), s |-> SetToSortSeq(c.sp.s, <), t |-> SetToSortSeq(c.sp.t, <),
                    i |-> SetToSortSeq(c.sp.i, <), p |-> SetToSortSeq(c.sp.p, <), u |-> SetToSortSeq(c.sp.u, <), n |-> SetToSortSeq(c.sp.n, <), old |-> OldFile,
                    rev |-> SetToSortSeq(c.rev, <)],
            views |-> [f \in Files |-> View(c.sp, f, f \in c.rev)],
            orders |-> SetToSeq(Perms(Files)), exp |-> Expected(c.sp)]

\* ---------------------------------------------------------------- judgement of the real library's results
ASSUME Mode # "judge" \/ TLCSet(13, ndJsonDeserialize(IOEnv.RESULTS))
Log == TLCGet(13)
\* record: [id, exp, order, loads (result class of every load_buffer), merged (sequence of [p, f]) sorted by path, dup (paths found twice),
\*          filecanon (per file: canonical element list of the file re-loaded alone), viewcanon (per file: canonical list of the view loaded alone)]
AllOk(r) == \A j \in 1..Len(r.loads) : r.loads[j] = "ok"
Union(r) == AllOk(r) /\ r.dup = <<>> /\ [j \in 1..Len(r.merged) |-> r.merged[j].p] = [j \in 1..Len(r.exp) |-> r.exp[j].p]
Attribution(r) == AllOk(r) => r.merged = r.exp
FileContent(r) == AllOk(r) => \A f \in 1..Len(r.filecanon) : r.filecanon[f] = r.viewcanon[f]
\* the records of one split (one per load order, at most 4! of them) are adjacent in the log
OrderIndependent(j) == \A i \in (IF j > 24 THEN j - 24 ELSE 1)..(j - 1) : Log[i].id = Log[j].id => Log[i].mergedcanon = Log[j].mergedcanon
Report(j, pred) == PrintT(<<"V", ToJson([step |-> j, pred |-> pred, prop |-> "C09", id |-> Log[j].id, order |-> Log[j].order, loads |-> Log[j].loads,
                                          merged |-> Log[j].merged, dup |-> Log[j].dup])>>)
Judge(j) == LET r == Log[j] IN
            /\ IF Union(r) THEN TRUE ELSE Report(j, "Union")
            /\ IF Attribution(r) THEN TRUE ELSE Report(j, "Attribution")
            /\ IF FileContent(r) THEN TRUE ELSE Report(j, "FileContent")
            /\ IF OrderIndependent(j) THEN TRUE ELSE Report(j, "OrderIndependent")

Init == CASE Mode = "gen" -> x \in Cases /\ PrintT(<<"I", ToJson(Line(x))>>)
          [] OTHER -> x = 1 /\ (IF Len(Log) >= 1 THEN Judge(1) ELSE TRUE)
Next == Mode = "judge" /\ x < Len(Log) /\ x' = x + 1 /\ Judge(x + 1)
Spec == Init /\ [][Next]_x
=============================================================================
