---------------------------- MODULE VersionCompat ----------------------------
(* C17: the version-compatibility check and set_version.                                                     *)
(* Generation: every (element type, version-dependent item) of the table data -- a child element, an attribute, *)
(* an enumeration value of an attribute or of the element's text that exists in some but not all versions --    *)
(* embedded in a minimal document of a source version in which it exists; the table semantics say in which       *)
(* target versions the document is expected to be valid (expmask).                                              *)
(* Judgement: on the records the real library produced for every target version.                                *)
EXTENDS Integers, Sequences, FiniteSets, TLC, Json, IOUtils, TypesData, SequencesExt

CONSTANTS Mode, SourcesPerItem
VARIABLE x
Types == TypesDataDef
SeqSet(s) == {s[i] : i \in 1..Len(s)}
Partial(mask) == Len(mask) < 21
\* versions in which the whole minimal document exists according to the tables
ExpMask(t, mask) == SeqSet(Types[t].pathmask) \cap SeqSet(mask)
\* up to SourcesPerItem source versions: the oldest, the newest (and the middle one) in which document and item exist
Pick(S) == IF S = {} THEN {} ELSE
           LET lo == CHOOSE v \in S : \A w \in S : v <= w
               hi == CHOOSE v \in S : \A w \in S : v >= w IN
           IF SourcesPerItem <= 1 THEN {hi} ELSE {lo, hi}
Cases ==
  UNION {
    {[ty |-> t, kind |-> "child", item |-> Types[t].children[k].name, attr |-> "", sver |-> sv, expmask |-> ExpMask(t, Types[t].children[k].mask)] :
        sv \in Pick(ExpMask(t, Types[t].children[k].mask))} : <<t, k>> \in {<<t2, k2>> \in {<<a, b>> : a \in DOMAIN Types, b \in 1..12} :
                                                                   k2 <= Len(Types[t2].children) /\ Partial(Types[t2].children[k2].mask)}}
  \cup UNION {
    {[ty |-> t, kind |-> "attr", item |-> Types[t].attrs[k].name, attr |-> "", sver |-> sv, expmask |-> ExpMask(t, Types[t].attrs[k].mask)] :
        sv \in Pick(ExpMask(t, Types[t].attrs[k].mask))} : <<t, k>> \in {<<t2, k2>> \in {<<a, b>> : a \in DOMAIN Types, b \in 1..12} :
                                                                   k2 <= Len(Types[t2].attrs) /\ Partial(Types[t2].attrs[k2].mask)}}
  \cup UNION {
    {[ty |-> t, kind |-> "enumattr", item |-> Types[t].attrs[k].items[j].i, attr |-> Types[t].attrs[k].name, sver |-> sv,
      expmask |-> ExpMask(t, Types[t].attrs[k].mask) \cap SeqSet(Types[t].attrs[k].items[j].mask)] :
        sv \in Pick(ExpMask(t, Types[t].attrs[k].mask) \cap SeqSet(Types[t].attrs[k].items[j].mask))} :
            <<t, k, j>> \in {<<t2, k2, j2>> \in {<<a, b, c>> : a \in DOMAIN Types, b \in 1..12, c \in 1..4} :
                              k2 <= Len(Types[t2].attrs) /\ j2 <= Len(Types[t2].attrs[k2].items) /\ Partial(Types[t2].attrs[k2].items[j2].mask)}}
  \cup UNION {
    {[ty |-> t, kind |-> "enumtext", item |-> Types[t].cdenum[j].i, attr |-> "", sver |-> sv, expmask |-> ExpMask(t, Types[t].cdenum[j].mask)] :
        sv \in Pick(ExpMask(t, Types[t].cdenum[j].mask))} : <<t, j>> \in {<<t2, j2>> \in {<<a, c>> : a \in DOMAIN Types, c \in 1..4} : j2 <= Len(Types[t2].cdenum)}}

\* ------------------------------------------------------------------ judgement
ASSUME Mode # "judge" \/ TLCSet(10, ndJsonDeserialize(IOEnv.RESULTS))
Log == TLCGet(10)
\* asserted for files whose own serialisation loads strictly under their current version (DESIGN 6.21)
CompatExact(r) == r.srcok => (((r.nerr = 0) <=> r.relabel_ok) /\ (r.maskhas <=> r.relabel_ok))
\* other_ok: the other file of a two-file model still has its own version, is written with it and reads back as before
\* (set_version goes by the check for every file, also one that was loaded leniently and does not conform to its own version)
SetVersionExact(r) == /\ (r.setver_ok <=> (r.nerr = 0))
                      /\ r.srcok => ((r.setver_ok => (r.same /\ r.after_ok)) /\ r.other_ok)
Report(j, pred) == PrintT(<<"V", ToJson([step |-> j, pred |-> pred, prop |-> "C17", r |-> Log[j]])>>)
Judge(j) == /\ IF CompatExact(Log[j]) THEN TRUE ELSE Report(j, "CompatExact")
            /\ IF SetVersionExact(Log[j]) THEN TRUE ELSE Report(j, "SetVersionExact")
\* third party (information only): do the loader and the table semantics agree on validity of the relabelled document?
TablesAgree(j) == IF Log[j].srcok /\ (Log[j].relabel_ok # (Log[j].tver \in SeqSet(Log[j].exp))) THEN PrintT(<<"TABLEVIEW", ToJson(Log[j])>>) ELSE TRUE

Init == CASE Mode = "gen" -> x \in Cases /\ PrintT(<<"I", ToJson([ty |-> x.ty, kind |-> x.kind, item |-> x.item, attr |-> x.attr, sver |-> x.sver,
                                                                  expmask |-> SetToSortSeq(x.expmask, <)])>>)
          [] OTHER -> x = 1 /\ (IF Len(Log) >= 1 THEN Judge(1) /\ TablesAgree(1) ELSE TRUE)
Next == Mode = "judge" /\ x < Len(Log) /\ x' = x + 1 /\ Judge(x + 1) /\ TablesAgree(x + 1)
Spec == Init /\ [][Next]_x
=============================================================================
