------------------------------- MODULE Grammar -------------------------------
(* E3: the meaning of the specification tables for the editing API.                                           *)
(* Types == type key |-> [mode, children (listing with index vectors, version masks, multiplicities), pair     *)
(* (mode of the deepest common group of two children), focus (children used for enumeration)].                  *)
(* Valid(t, v, seq): a child sequence is in specification order, exclusive alternatives are not mixed,          *)
(* single-occurrence children are not repeated, every child exists in version v.                                *)
(* InsertPositions(t, v, seq, k): positions at which child k can be inserted keeping Valid.                     *)
(* CalcRange: transcription of calc_element_insert_range, so that TLC also compares the algorithm with the      *)
(* declarative definition on the model.                                                                          *)
EXTENDS Integers, Sequences, FiniteSets, TLC, Json, FiniteSetsExt, SequencesExt

CONSTANTS Types, MaxLen, VersionsPerType
VARIABLES ty, ver, seq, hist

InMask(mask, v) == \E i \in 1..Len(mask) : mask[i] = v
Kids(t) == Types[t].children
Avail(t, v, k) == InMask(Kids(t)[k].mask, v)
\* find_sub_element(name, v): the first listed child with that name available in v
Resolve(t, v, k) == LET S == {j \in 1..Len(Kids(t)) : Kids(t)[j].name = Kids(t)[k].name /\ Avail(t, v, j)} IN IF S = {} THEN 0 ELSE Min(S)
RECURSIVE CmpIdx(_, _)
CmpIdx(a, b) == IF a = <<>> /\ b = <<>> THEN 0 ELSE IF a = <<>> THEN -1 ELSE IF b = <<>> THEN 1
                ELSE IF Head(a) < Head(b) THEN -1 ELSE IF Head(a) > Head(b) THEN 1 ELSE CmpIdx(Tail(a), Tail(b))
Cmp(t, a, b) == CmpIdx(Kids(t)[a].idx, Kids(t)[b].idx)
GMode(t, a, b) == Types[t].pair[a][b]

\* ---------------------------------------------------------------- declarative validity
PairOK(t, a, b) ==      \* child a somewhere before child b
  CASE GMode(t, a, b) = "Sequence" -> Cmp(t, a, b) < 0 \/ (Cmp(t, a, b) = 0 /\ Kids(t)[a].mult = "Any")
    [] GMode(t, a, b) = "Choice" -> Cmp(t, a, b) = 0 /\ Kids(t)[a].mult = "Any"
    [] OTHER -> TRUE
Valid(t, v, s) ==
  \/ Types[t].mode \in {"Bag", "Mixed"} /\ \A i \in 1..Len(s) : Avail(t, v, s[i])
  \/ /\ Types[t].mode \in {"Sequence", "Choice"}
     /\ \A i \in 1..Len(s) : Avail(t, v, s[i])
     /\ \A i, j \in 1..Len(s) : i < j => PairOK(t, s[i], s[j])
InsAt(s, p, k) == SubSeq(s, 1, p) \o <<k>> \o SubSeq(s, p + 1, Len(s))
InsertPositions(t, v, s, k) == IF Types[t].mode = "Characters" \/ ~Avail(t, v, k) THEN {} ELSE {p \in 0..Len(s) : Valid(t, v, InsAt(s, p, k))}

\* ---------------------------------------------------------------- the algorithm of the code (calc_element_insert_range)
RECURSIVE Scan(_, _, _, _, _, _, _)
Scan(t, v, s, k, j, lo, hi) ==
  IF j > Len(s) THEN [ok |-> TRUE, lo |-> lo, hi |-> hi]
  ELSE LET e == s[j]
           gm == GMode(t, k, e)
           c == Cmp(t, k, e) IN
       IF gm = "Sequence" THEN
            IF c < 0 THEN [ok |-> TRUE, lo |-> lo, hi |-> hi]
            ELSE IF c = 0 THEN (IF Kids(t)[k].mult # "Any" THEN [ok |-> FALSE, lo |-> 0, hi |-> 0] ELSE Scan(t, v, s, k, j + 1, lo, j))
            ELSE Scan(t, v, s, k, j + 1, j, j)
       ELSE IF gm = "Choice" THEN
            IF c = 0 /\ Kids(t)[k].mult = "Any" THEN Scan(t, v, s, k, j + 1, lo, j) ELSE [ok |-> FALSE, lo |-> 0, hi |-> 0]
       ELSE Scan(t, v, s, k, j + 1, lo, j)
CalcRange(t, v, s, k) ==
  IF Types[t].mode = "Characters" \/ ~Avail(t, v, k) THEN [ok |-> FALSE, lo |-> 0, hi |-> 0]
  ELSE IF Types[t].mode \in {"Bag", "Mixed"} THEN [ok |-> TRUE, lo |-> 0, hi |-> Len(s)]
  ELSE Scan(t, v, s, k, 1, 0, 0)

\* ---------------------------------------------------------------- exploration
\* (value types without sub elements are in the table data for the version-compatibility cases only)
TypeKeys == {t \in DOMAIN Types : Len(Types[t].children) > 0}
Focus(t) == {Types[t].focus[i] : i \in 1..Len(Types[t].focus)}
Vers(t) == {Types[t].vers[i] : i \in 1..Len(Types[t].vers)}
\* every child name of the listing once: the entry that the name resolves to in v, or (name not available in v) its first entry
FirstOfName(t, k) == \A j \in 1..(k - 1) : Kids(t)[j].name # Kids(t)[k].name
Expect(t, v, s) ==
  [k \in {j \in 1..Len(Kids(t)) : Resolve(t, v, j) = j \/ (Resolve(t, v, j) = 0 /\ FirstOfName(t, j))} |->
      \* ckey: the element type that an element of this name has in version v (the entry the name resolves to)
      LET P == InsertPositions(t, v, s, k) IN [name |-> Kids(t)[k].name, set |-> P, avail |-> Avail(t, v, k), ckey |-> Kids(t)[k].ckey]]
\* model-level comparison of the algorithm with the definition (a candidate; it counts only if the real library shows it)
AlgoAgrees(t, v, s) ==
  \A k \in Focus(t) : Avail(t, v, k) =>
     LET P == InsertPositions(t, v, s, k)
         r == CalcRange(t, v, s, k) IN
     IF P = {} THEN ~r.ok ELSE r.ok /\ r.lo = Min(P) /\ r.hi = Max(P) /\ P = r.lo..r.hi

\* an identifiable element is created together with its SHORT-NAME (create_named_sub_element): that is its initial content
NamedIn(t, v) == Len(Kids(t)) > 0 /\ Kids(t)[1].name = "SHORT-NAME" /\ Avail(t, v, 1)
Init == /\ ty \in TypeKeys /\ ver \in Vers(ty) /\ seq = (IF NamedIn(ty, ver) THEN <<1>> ELSE <<>>) /\ hist = <<>>
Next == /\ Len(hist) < MaxLen
        /\ \E k \in Focus(ty) : \E p \in InsertPositions(ty, ver, seq, k) :
              /\ seq' = InsAt(seq, p, k) /\ hist' = Append(hist, <<k, p>>) /\ UNCHANGED <<ty, ver>>
Spec == Init /\ [][Next]_<<ty, ver, seq, hist>>
View == <<ty, ver, seq>>

\* monitors
IsValid == IF Valid(ty, ver, seq) THEN TRUE ELSE PrintT(<<"INVALIDSTATE", ToJson([ty |-> ty, ver |-> ver, seq |-> seq])>>)
Algo == IF AlgoAgrees(ty, ver, seq) THEN TRUE ELSE PrintT(<<"ALGODIFF", ToJson([ty |-> ty, ver |-> ver, seq |-> seq, hist |-> hist])>>)
EmitCase == PrintT(<<"I", ToJson([ty |-> ty, ver |-> ver, hist |-> hist, names |-> [i \in 1..Len(seq) |-> Kids(ty)[seq[i]].name],
                                   exp |-> LET E == Expect(ty, ver, seq)
                                                  D == SetToSortSeq(DOMAIN E, <) IN
                                              [j \in 1..Len(D) |-> [name |-> E[D[j]].name, set |-> SetToSortSeq(E[D[j]].set, <), avail |-> E[D[j]].avail, ckey |-> E[D[j]].ckey]]])>>)
=============================================================================
