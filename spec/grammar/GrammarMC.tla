------------------------------ MODULE GrammarMC ------------------------------
(* root module for TLC: binds the generated table data (TypesData.tla, written by the driver from the tables of *)
(* the current tree) to the constant of Grammar.tla                                                             *)
EXTENDS Grammar, TypesData
TypesDef == TypesDataDef
=============================================================================
