SPECIFICATION Spec
VIEW View
CHECK_DEADLOCK FALSE
INVARIANT IsValid
INVARIANT Algo
INVARIANT EmitCase
CONSTANTS
  Types <- TypesDef
  MaxLen = 2
  VersionsPerType = 3
