---------------------------- MODULE MC_fixtures ----------------------------
(* Fixtures (as action lists from the empty universe) and scenario constants for MC_core.                *)
EXTENDS MC_core

Act(op) == [A0 EXCEPT !.op = op]
CF(m, name, ver) == [A0 EXCEPT !.op = "CreateFile", !.m = m, !.name = name, !.ver = ver]
CS(p, k) == [A0 EXCEPT !.op = "CreateSub", !.p = p, !.k = k]
CN(p, k, name) == [A0 EXCEPT !.op = "CreateNamed", !.p = p, !.k = k, !.name = name]
SR(p, c) == [A0 EXCEPT !.op = "SetRef", !.p = p, !.c = c]
ST(p, v) == [A0 EXCEPT !.op = "SetText", !.p = p, !.val = v]

\* nodes 1,2 = roots of models 1,2
\* F0: one empty file per model
F0 == <<CF(1, "f1", "V50"), CF(2, "g1", "V50")>>
\* F1: /a {ELEMENTS {SYSTEM-SIGNAL s, I-SIGNAL i -> /a/s}}; model 2 has a file and AR-PACKAGES
\*  3 AR-PACKAGES, 4 AR-PACKAGE a, 5 SN, 6 ELEMENTS, 7 SYSTEM-SIGNAL s, 8 SN, 9 I-SIGNAL i, 10 SN, 11 SYSTEM-SIGNAL-REF
F1 == <<CF(1, "f1", "V50"), CF(2, "g1", "V50"),
        CS(1, "AR-PACKAGES"), CN(3, "AR-PACKAGE", "a"), CS(4, "ELEMENTS"),
        CN(6, "SYSTEM-SIGNAL", "s"), CN(6, "I-SIGNAL", "i"), CS(9, "SYSTEM-SIGNAL-REF"), SR(11, 7)>>
=============================================================================
