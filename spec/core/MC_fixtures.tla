---------------------------- MODULE MC_fixtures ----------------------------
(* Fixtures (as action lists from the empty universe) and scenario constants for MC_core.                *)
EXTENDS MC_core

Act(op) == [A0 EXCEPT !.op = op]
CF(m, name, ver) == [A0 EXCEPT !.op = "CreateFile", !.m = m, !.name = name, !.ver = ver]
CS(p, k) == [A0 EXCEPT !.op = "CreateSub", !.p = p, !.k = k]
CN(p, k, name) == [A0 EXCEPT !.op = "CreateNamed", !.p = p, !.k = k, !.name = name]
SR(p, c) == [A0 EXCEPT !.op = "SetRef", !.p = p, !.c = c]
ST(p, v) == [A0 EXCEPT !.op = "SetText", !.p = p, !.val = v]

\* nodes 1,2 = roots of models 1,2
\* F0: one empty file per model
F0 == <<CF(1, "f1", "V50"), CF(2, "g1", "V50")>>
\* F1: a scratch package z created first, then /a {ELEMENTS {SYSTEM-SIGNAL s, I-SIGNAL i -> /a/s}}; model 2 has a file
\*  3 AR-PACKAGES, 4 AR-PACKAGE z, 5 SN, 6 AR-PACKAGE a, 7 SN, 8 ELEMENTS, 9 SYSTEM-SIGNAL s, 10 SN, 11 I-SIGNAL i, 12 SN, 13 SYSTEM-SIGNAL-REF
F1 == <<CF(1, "f1", "V50"), CF(2, "g1", "V50"),
        CS(1, "AR-PACKAGES"), CN(3, "AR-PACKAGE", "z"), CN(3, "AR-PACKAGE", "a"), CS(6, "ELEMENTS"),
        CN(8, "SYSTEM-SIGNAL", "s"), CN(8, "I-SIGNAL", "i"), CS(11, "SYSTEM-SIGNAL-REF"), SR(13, 9)>>
\* F2: reference graph: /a {s, s1, i -> /a/s, j -> /a/s, k -> /a/b (dangling)}, nested package /a/p {t}, r -> /a/p/t
\*  3 AR-PACKAGES, 4 AR-PACKAGE a, 5 SN, 6 ELEMENTS, 7 SYSTEM-SIGNAL s, 8 SN, 9 SYSTEM-SIGNAL s1, 10 SN,
\*  11 I-SIGNAL i, 12 SN, 13 I-SIGNAL j, 14 SN, 15 I-SIGNAL k, 16 SN, 17 ref(i), 18 ref(j), 19 ref(k)
\*  20 AR-PACKAGES~2 (in a), 21 AR-PACKAGE p, 22 SN, 23 ELEMENTS, 24 SYSTEM-SIGNAL t, 25 SN, 26 I-SIGNAL r, 27 SN, 28 ref(r)
F2 == <<CF(1, "f1", "V50"), CF(2, "g1", "V50"),
        CS(1, "AR-PACKAGES"), CN(3, "AR-PACKAGE", "a"), CS(4, "ELEMENTS"),
        CN(6, "SYSTEM-SIGNAL", "s"), CN(6, "SYSTEM-SIGNAL", "s1"),
        CN(6, "I-SIGNAL", "i"), CN(6, "I-SIGNAL", "j"), CN(6, "I-SIGNAL", "k"),
        CS(11, "SYSTEM-SIGNAL-REF"), CS(13, "SYSTEM-SIGNAL-REF"), CS(15, "SYSTEM-SIGNAL-REF"),
        SR(17, 7), SR(18, 7), ST(19, PVal(<<"a", "b">>)),
        CS(4, "AR-PACKAGES"), CN(20, "AR-PACKAGE", "p"), CS(21, "ELEMENTS"),
        CN(23, "SYSTEM-SIGNAL", "t"), CN(23, "I-SIGNAL", "r"), CS(26, "SYSTEM-SIGNAL-REF"), SR(28, 24),
        \* model 2: 29 AR-PACKAGES, 30 AR-PACKAGE a, 31 SN (a package moved here from model 1 meets its own name)
        CS(2, "AR-PACKAGES"), CN(29, "AR-PACKAGE", "a"),
        \* model 1: 32 AR-PACKAGE b, 33 SN: an empty package that can take the ELEMENTS of a (a move inside the model)
        CN(3, "AR-PACKAGE", "b")>>
AF(p, f) == [A0 EXCEPT !.op = "AddToFile", !.p = p, !.f = f]
RF(p, f) == [A0 EXCEPT !.op = "RemoveFromFile", !.p = p, !.f = f]
\* F3: two files in model 1 (file ids: 1 = f1, 2 = g1 of model 2, 3 = f2); packages a (f1 only), b (both), c (both, with content)
\*  3 AR-PACKAGES, 4 a, 5 SN, 6 b, 7 SN, 8 c, 9 SN, 10 ELEMENTS (in c), 11 SYSTEM-SIGNAL s, 12 SN, 13 ELEMENTS (in a), 14 SYSTEM-SIGNAL t, 15 SN
F3 == <<CF(1, "f1", "V50"), CF(2, "g1", "V50"),
        CS(1, "AR-PACKAGES"), CN(3, "AR-PACKAGE", "a"), CN(3, "AR-PACKAGE", "b"), CN(3, "AR-PACKAGE", "c"),
        CS(8, "ELEMENTS"), CN(10, "SYSTEM-SIGNAL", "s"), CS(4, "ELEMENTS"), CN(13, "SYSTEM-SIGNAL", "t"),
        \* 16 SYSTEM-SIGNAL s1 (in c, next to s: one name is a prefix of the other), 17 SN
        CN(10, "SYSTEM-SIGNAL", "s1"),
        \* 18 AR-PACKAGES (in b), 19 AR-PACKAGE n, 20 SN: a nested package with a file set of its own (f1 only, see the last action)
        CS(6, "AR-PACKAGES"), CN(18, "AR-PACKAGE", "n"),
        CF(1, "f2", "V50"), AF(3, 3), RF(4, 3), RF(19, 3)>>
SA(p, an, v) == [A0 EXCEPT !.op = "SetAttr", !.p = p, !.an = an, !.val = v]
SC(p, c) == [A0 EXCEPT !.op = "SetComment", !.p = p, !.name = c]
\* F4: copy across versions: model 1 is V50, model 2 is V401
\*  3 AR-PACKAGES, 4 a, 5 SN, 6 ELEMENTS, 7 SYSTEM-SIGNAL s, 8 SN (NAME-PATTERN attribute: not in V401), 9 SHORT-NAME-FRAGMENTS (not in V401),
\*  10 I-SIGNAL i, 11 SN, 12 DATA-TYPE-POLICY = TRANSFORMING-I-SIGNAL (value not in V401), 13 SYSTEM-SIGNAL-REF -> /a/s
\*  14 I-SIGNAL j, 15 SN, 16 SYSTEM-SIGNAL-REF -> /a/s (a second reference to the same target inside the copied sub tree)
\*  17 AR-PACKAGES (model 2), 18 a, 19 SN
F4 == <<CF(1, "f1", "V50"), CF(2, "g1", "V401"),
        CS(1, "AR-PACKAGES"), CN(3, "AR-PACKAGE", "a"), CS(4, "ELEMENTS"),
        CN(6, "SYSTEM-SIGNAL", "s"), CS(7, "SHORT-NAME-FRAGMENTS"),
        CN(6, "I-SIGNAL", "i"), CS(10, "DATA-TYPE-POLICY"), ST(12, EVal("TRANSFORMING-I-SIGNAL")), CS(10, "SYSTEM-SIGNAL-REF"), SR(13, 7),
        CN(6, "I-SIGNAL", "j"), CS(14, "SYSTEM-SIGNAL-REF"), SR(16, 7),
        SA(8, "NAME-PATTERN", SVal("x")), SC(7, "cmt"),
        CS(2, "AR-PACKAGES"), CN(17, "AR-PACKAGE", "a"),
        \* model 2: 20 ELEMENTS (in a), 21 AR-PACKAGES (in a), 22 AR-PACKAGE s, 23 SN: a signal s copied into 20 meets the path /a/s of
        \* an element in another container of the same package
        CS(18, "ELEMENTS"), CS(18, "AR-PACKAGES"), CN(21, "AR-PACKAGE", "s")>>
LD(m, d) == [A0 EXCEPT !.op = "Load", !.m = m, !.k = d, !.name = d]
\* F5: a model built by loading: pb = packages a (no ELEMENTS) and b
\*  the root of model 1 is node 3 afterwards (1 = the replaced empty root); 4 AR-PACKAGES, 5 a, 6 SN, 7 b, 8 SN
F5 == <<LD(1, "pb")>>
\* F6: mixed content.  /a {DESC {L-2 [L=EN] { TT "t" }}} (a single sub element and no text),
\*                     /b {DESC {L-2 [L=EN] { "txt", TT "u", XREF-TARGET x }}}
\*  3 AR-PACKAGES, 4 a, 5 SN, 6 DESC, 7 L-2, 8 TT, 9 b, 10 SN, 11 DESC, 12 L-2, 13 TT, 14 XREF-TARGET x, 15 SN
F6 == <<CF(1, "f1", "V50"), CF(2, "g1", "V50"),
        CS(1, "AR-PACKAGES"), CN(3, "AR-PACKAGE", "a"), CS(4, "DESC"), CS(6, "L-2"), SA(7, "L", EVal("EN")),
        CS(7, "TT"), ST(8, SVal("t")),
        CN(3, "AR-PACKAGE", "b"), CS(9, "DESC"), CS(11, "L-2"), SA(12, "L", EVal("EN")),
        ST(12, SVal("txt")), CS(12, "TT"), ST(13, SVal("u")), CN(12, "XREF-TARGET", "x")>>
\* F7: one target with referrers of different validity: /a/i (I-SIGNAL) is referenced by the FIBEX-ELEMENT-REF of SYSTEM y
\* (DEST = I-SIGNAL: fits) and by the SYSTEM-SIGNAL-REF of I-SIGNAL m, whose text was edited to /a/i (DEST = SYSTEM-SIGNAL: does not fit)
\*  3 AR-PACKAGES, 4 a, 5 SN, 6 ELEMENTS, 7 I-SIGNAL i, 8 SN, 9 I-SIGNAL m, 10 SN, 11 SYSTEM-SIGNAL-REF, 12 SYSTEM y, 13 SN,
\*  14 FIBEX-ELEMENTS, 15 FIBEX-ELEMENT-REF-CONDITIONAL, 16 FIBEX-ELEMENT-REF
F7 == <<CF(1, "f1", "V50"), CF(2, "g1", "V50"),
        CS(1, "AR-PACKAGES"), CN(3, "AR-PACKAGE", "a"), CS(4, "ELEMENTS"), CN(6, "I-SIGNAL", "i"), CN(6, "I-SIGNAL", "m"),
        CS(9, "SYSTEM-SIGNAL-REF"), SA(11, "DEST", EVal("SYSTEM-SIGNAL")), ST(11, PVal(<<"a", "i">>)),
        CN(6, "SYSTEM", "y"), CS(12, "FIBEX-ELEMENTS"), CS(14, "FIBEX-ELEMENT-REF-CONDITIONAL"), CS(15, "FIBEX-ELEMENT-REF"), SR(16, 7)>>
AttrValuesDef == {<<"UUID", SVal("u1")>>, <<"DEST", EVal("SYSTEM-SIGNAL")>>, <<"DEST", EVal("I-SIGNAL")>>, <<"NAME-PATTERN", SVal("x")>>,
                  <<"UUID", SVal("say {22}hi{22}")>>}    \* {22}: a double quote (the harness substitutes it)
=============================================================================
