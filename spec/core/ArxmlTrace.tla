----------------------------- MODULE ArxmlTrace -----------------------------
(* Validation of executions recorded from the real library.  Each line of the log is                      *)
(*   [ev |-> action or "reset", res |-> result, obs |-> full observation after the step].                 *)
(* The logged observation IS the state; TLC evaluates on it every state predicate (charged to the step at  *)
(* which it turns false), every action predicate, and whether the step is a step of the specification's    *)
(* next-state relation (drift otherwise).  Nothing stops early: all verdicts are printed.                   *)
EXTENDS ArxmlObs, Json, IOUtils, SchemaData

CONSTANTS NM
VARIABLES l,
          dead   \* TRUE after a failing step of a history that a known finding explains: the rest of it is not judged

\* (a constant overridden in the cfg by a definition of an EXTENDed module is re-evaluated at every use by TLC;
\*  one level of indirection in this module makes it a precomputed constant)
SchemaDef == SchemaDataDef

P == INSTANCE ArxmlProps
K == INSTANCE ArxmlKF

ASSUME TLCSet(7, ndJsonDeserialize(IOEnv.TRACE))
Log == TLCGet(7)

ModelledOps == {"CreateFile", "RemoveFile", "CreateSub", "CreateNamed", "Copy", "Move", "Remove", "RemoveKind", "Rename",
                "SetText", "RemoveText", "SetRef", "SetAttr", "RemoveAttr", "SetComment", "AddToFile", "RemoveFromFile", "Duplicate", "Load", "InsertText", "RemoveTextItem"}

\* observation -> specification state
Abs(o) ==
  [n |-> [i \in 1..Len(o.n) |-> [k |-> o.n[i].k, par |-> o.n[i].par, cont |-> o.n[i].cont, at |-> o.n[i].at,
                                   cmt |-> o.n[i].cmt, fm |-> SeqToSet(o.n[i].fm)]],
   root |-> [m \in 1..Len(o.models) |-> o.models[m].root],
   files |-> [m \in 1..Len(o.models) |-> o.models[m].files],
   f |-> [j \in 1..Len(o.f) |-> [name |-> o.f[j].name, ver |-> o.f[j].ver, m |-> o.f[j].m]],
   idx |-> [m \in 1..Len(o.models) |-> {<<o.models[m].idx[j][1], o.models[m].idx[j][2]>> : j \in 1..Len(o.models[m].idx)}],
   refo |-> [m \in 1..Len(o.models) |-> {<<o.models[m].refo[j][1], o.models[m].refo[j][2]>> : j \in 1..Len(o.models[m].refo)}]]

AllKnown(o) == \A i \in 1..Len(o.n) : o.n[i].k \in DOMAIN Schema
SameRes(r1, r2) == r1.t = r2.t /\ (r1.t = "err" => r1.v = r2.v)
Conforms(pre, ev, res, post) ==
  IF ev.op \notin ModelledOps \/ ~AllKnown(pre) \/ ~AllKnown(post) \/ (ev.op = "Load" /\ ev.k \notin DOMAIN LoadDocs) THEN "unmodelled"
  ELSE IF \E out \in Do(Abs(pre), ev) : SameRes(out.res, res) /\ out.st = Abs(post) THEN "yes" ELSE "no"

Report(j, kind, name, kf) == PrintT(<<"V", ToJson([step |-> j, kind |-> kind, pred |-> name, prop |-> P!PropertyOf(name),
                                                    op |-> Log[j].ev.op, res |-> Log[j].res, kf |-> kf])>>)

ResetFails(j) == LET r == P!StateProps(Log[j].obs) IN {k \in DOMAIN r : ~r[k]}
CheckReset(j) == \A k \in ResetFails(j) : Report(j, "state-at-reset", k, {})

\* the set of property predicates failing at step j (state predicates: those that turn from true to false)
StepFails(j) ==
  LET pre == Log[j - 1].obs
      post == Log[j].obs
      cx1 == P!Ctx(pre)
      cx2 == P!Ctx(post)
      s1 == P!StatePropsCx(pre, cx1)
      s2 == P!StatePropsCx(post, cx2)
      a == P!ActionPropsCx(pre, cx1, Log[j].ev, Log[j].res, post, cx2)
  IN [st |-> {k \in DOMAIN s2 : s1[k] /\ ~s2[k]}, ac |-> {k \in DOMAIN a : ~a[k]}, cx1 |-> cx1, cx2 |-> cx2]

\* the known findings whose signature matches some predicate failing at step j
KfsOf(j, sf) == UNION {K!KFMatch(Log[j - 1].obs, sf.cx1, Log[j].ev, Log[j].res, Log[j].obs, sf.cx2, k) : k \in sf.st \cup sf.ac}
CheckStep(j, sf) ==
  LET pre == Log[j - 1].obs
      post == Log[j].obs
      ev == Log[j].ev
      res == Log[j].res
      cf == Conforms(pre, ev, res, post)
      \* a failing predicate is explained by a known finding only if that finding's signature names (or does not restrict) it
      kf(k) == K!KFMatch(pre, sf.cx1, ev, res, post, sf.cx2, k)
  IN /\ \A k \in sf.st : Report(j, "state", k, kf(k))
     /\ \A k \in sf.ac : Report(j, "action", k, kf(k))
     /\ IF cf = "no" THEN Report(j, "drift", "ConformsToNext", {}) ELSE TRUE
     /\ IF cf = "unmodelled" THEN Report(j, "unmodelled", "ConformsToNext", {}) ELSE TRUE

Poisoned(j) == "poisoned" \in DOMAIN Log[j].obs

Init == /\ l = 1
        /\ (IF Poisoned(1) THEN TRUE ELSE CheckReset(1))
        /\ dead = (~Poisoned(1) /\ ResetFails(1) # {})
Next == /\ l < Len(Log)
        /\ l' = l + 1
        /\ LET j == l + 1 IN
           IF Log[j].ev.op = "reset" THEN
                /\ (IF Poisoned(j) THEN TRUE ELSE CheckReset(j))
                /\ dead' = (~Poisoned(j) /\ ResetFails(j) # {})
           ELSE IF dead THEN dead' = TRUE
           ELSE IF Poisoned(j) \/ Poisoned(l) THEN
                \* the call never returned: the only thing to judge is the result class
                /\ (IF Log[j].res.t \in {"panic", "hang"} THEN Report(j, "action", "NoPanicNoHangNoSpuriousLock", {}) ELSE TRUE)
                /\ dead' = TRUE
           ELSE LET sf == StepFails(j) IN
                /\ CheckStep(j, sf)
                \* after a step that a known finding explains, the rest of the history is a consequence of that finding and is
                \* not judged; after any other failing step the history stays under judgement (a defect shows under the
                \* property it breaks first, and under those it breaks later)
                /\ dead' = (sf.st \cup sf.ac # {} /\ KfsOf(j, sf) # {})
Spec == Init /\ [][Next]_<<l, dead>>
Consumed == IF TLCGet("stats").diameter = Len(Log) THEN TRUE ELSE PrintT(<<"NOTCONSUMED", TLCGet("stats").diameter, Len(Log)>>)
=============================================================================
