----------------------------- MODULE ArxmlTrace -----------------------------
(* Validation of executions recorded from the real library.  Each line of the log is                      *)
(*   [ev |-> action or "reset", res |-> result, obs |-> full observation after the step].                 *)
(* The logged observation IS the state; TLC evaluates on it every state predicate (charged to the step at  *)
(* which it turns false), every action predicate, and whether the step is a step of the specification's    *)
(* next-state relation (drift otherwise).  Nothing stops early: all verdicts are printed.                   *)
EXTENDS ArxmlObs, Json, IOUtils, SchemaData

CONSTANTS NM
VARIABLES l

\* (a constant overridden in the cfg by a definition of an EXTENDed module is re-evaluated at every use by TLC;
\*  one level of indirection in this module makes it a precomputed constant)
SchemaDef == SchemaDataDef

P == INSTANCE ArxmlProps

ASSUME TLCSet(7, ndJsonDeserialize(IOEnv.TRACE))
Log == TLCGet(7)

ModelledOps == {"CreateFile", "RemoveFile", "CreateSub", "CreateNamed", "Copy", "Move", "Remove", "RemoveKind", "Rename",
                "SetText", "RemoveText", "SetRef", "SetAttr", "RemoveAttr", "SetComment", "AddToFile", "RemoveFromFile"}

\* observation -> specification state
Abs(o) ==
  [n |-> [i \in 1..Len(o.n) |-> [k |-> o.n[i].k, par |-> o.n[i].par, cont |-> o.n[i].cont, at |-> o.n[i].at,
                                   cmt |-> o.n[i].cmt, fm |-> SeqToSet(o.n[i].fm)]],
   root |-> [m \in 1..Len(o.models) |-> o.models[m].root],
   files |-> [m \in 1..Len(o.models) |-> o.models[m].files],
   f |-> [j \in 1..Len(o.f) |-> [name |-> o.f[j].name, ver |-> o.f[j].ver, m |-> o.f[j].m]],
   idx |-> [m \in 1..Len(o.models) |-> {<<o.models[m].idx[j][1], o.models[m].idx[j][2]>> : j \in 1..Len(o.models[m].idx)}],
   refo |-> [m \in 1..Len(o.models) |-> {<<o.models[m].refo[j][1], o.models[m].refo[j][2]>> : j \in 1..Len(o.models[m].refo)}]]

AllKnown(o) == \A i \in 1..Len(o.n) : o.n[i].k \in DOMAIN Schema
SameRes(r1, r2) == r1.t = r2.t /\ (r1.t = "err" => r1.v = r2.v)
Conforms(pre, ev, res, post) ==
  IF ev.op \notin ModelledOps \/ ~AllKnown(pre) \/ ~AllKnown(post) THEN "unmodelled"
  ELSE IF \E out \in Do(Abs(pre), ev) : SameRes(out.res, res) /\ out.st = Abs(post) THEN "yes" ELSE "no"

Report(j, kind, name) == PrintT(<<"V", ToJson([step |-> j, kind |-> kind, pred |-> name, prop |-> P!PropertyOf(name),
                                                op |-> Log[j].ev.op, res |-> Log[j].res])>>)

CheckReset(j) ==
  LET r == P!StateProps(Log[j].obs) IN
  \A k \in DOMAIN r : r[k] \/ Report(j, "state-at-reset", k)

CheckStep(j) ==
  LET pre == Log[j - 1].obs
      post == Log[j].obs
      ev == Log[j].ev
      res == Log[j].res
      cx1 == P!Ctx(pre)
      cx2 == P!Ctx(post)
      s1 == P!StatePropsCx(pre, cx1)
      s2 == P!StatePropsCx(post, cx2)
      a == P!ActionPropsCx(pre, cx1, ev, res, post, cx2)
      cf == Conforms(pre, ev, res, post)
  IN /\ \A k \in DOMAIN s2 : (s2[k] \/ ~s1[k]) \/ Report(j, "state", k)
     /\ \A k \in DOMAIN a : a[k] \/ Report(j, "action", k)
     /\ (cf # "no") \/ Report(j, "drift", "ConformsToNext")
     /\ (cf # "unmodelled") \/ Report(j, "unmodelled", "ConformsToNext")

Poisoned(j) == "poisoned" \in DOMAIN Log[j].obs

Init == l = 1 /\ (Poisoned(1) \/ CheckReset(1))
Next == /\ l < Len(Log)
        /\ l' = l + 1
        /\ IF Poisoned(l + 1) \/ Poisoned(l) THEN
              \* the call never returned: the only thing to evaluate is the result class
              (Log[l + 1].ev.op = "reset" \/ Log[l + 1].res.t \notin {"panic", "hang"} \/ Report(l + 1, "action", "NoPanicNoHangNoSpuriousLock"))
           ELSE IF Log[l + 1].ev.op = "reset" THEN CheckReset(l + 1) ELSE CheckStep(l + 1)
Spec == Init /\ [][Next]_l
Consumed == TLCGet("stats").diameter = Len(Log) \/ PrintT(<<"NOTCONSUMED", TLCGet("stats").diameter, Len(Log)>>)
=============================================================================
