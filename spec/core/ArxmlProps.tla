----------------------------- MODULE ArxmlProps -----------------------------
(* The listed properties C03-C06, C10-C13 as predicates over an observation record `o` (what the public *)
(* API answers in one state) and as action predicates over (o, ev, res, o2).  The same definitions are    *)
(* used as invariants of the specification (o = SpecObs(st)) and on observations logged from the real     *)
(* library.  `cont` is "the tree"; everything else in `o` is an answer of the API that must agree with it. *)
EXTENDS Integers, Sequences, FiniteSets, TLC, SequencesExt, FiniteSetsExt

CONSTANT Schema

PSeqToSet(sq) == {sq[i] : i \in 1..Len(sq)}
RECURSIVE PSortInts(_)
PSortInts(S) == IF S = {} THEN <<>> ELSE LET m == Min(S) IN <<m>> \o PSortInts(S \ {m})
NoDup(sq) == Cardinality(PSeqToSet(sq)) = Len(sq)

OKindRec(o, i) == Schema[o.n[i].k]
OKnown(o, i) == o.n[i].k \in DOMAIN Schema
OName(o, i) == IF OKnown(o, i) THEN OKindRec(o, i).name ELSE o.n[i].k
OCont(o, i) == o.n[i].cont
OSubSeq(o, i) == LET c == SelectSeq(OCont(o, i), LAMBDA x : x.t = "e") IN [j \in 1..Len(c) |-> c[j].id]
OFm(o, i) == PSeqToSet(o.n[i].fm)

\* pre-order walk with depth, bounded by fuel so that a cyclic "tree" cannot make the evaluation diverge
RECURSIVE ODfsD(_, _, _, _, _)
RECURSIVE ODfsListD(_, _, _, _, _)
\* max = 0: unlimited depth
ODfsD(o, i, d, max, fuel) ==
  IF fuel = 0 THEN <<<<d, i>>>>
  ELSE <<<<d, i>>>> \o (IF max = 0 \/ d < max THEN ODfsListD(o, OSubSeq(o, i), d + 1, max, fuel - 1) ELSE <<>>)
ODfsListD(o, ids, d, max, fuel) ==
  IF ids = <<>> THEN <<>> ELSE ODfsD(o, Head(ids), d, max, fuel) \o ODfsListD(o, Tail(ids), d, max, fuel)
Fuel(o) == Len(o.n) + 1
ODfs(o, i) == LET D == ODfsD(o, i, 0, 0, Fuel(o)) IN [j \in 1..Len(D) |-> D[j][2]]
OReach(o, m) == PSeqToSet(ODfs(o, o.models[m].root))
OModels(o) == 1..Len(o.models)

\* ---------------------------------------------------------------------------------------------- C03
TreeOK(o, cx) ==
  /\ \A m \in OModels(o) :
       LET rt == o.models[m].root
           D == ODfs(o, rt) IN
       /\ NoDup(D)
       /\ o.n[rt].par.t = "m" /\ o.n[rt].par.v = m
       /\ \A j \in 1..Len(D) :
            LET i == D[j] IN
            /\ o.n[i].model.t = "ok" /\ o.n[i].model.v = m
            /\ \A q \in 1..Len(OCont(o, i)) :
                 OCont(o, i)[q].t = "e" =>
                   LET c == OCont(o, i)[q].id IN
                   /\ o.n[c].par.t = "e" /\ o.n[c].par.v = i
                   /\ o.n[c].pos = q - 1
  /\ \A m1, m2 \in OModels(o) : m1 # m2 => cx.reach[m1] \cap cx.reach[m2] = {}

\* file-scoped walk: a subtree is skipped when its root carries a local file set that lacks f
RECURSIVE OFileDfs(_, _, _, _, _, _)
RECURSIVE OFileDfsList(_, _, _, _, _, _)
OFileDfs(o, i, f, d, max, fuel) ==
  IF OFm(o, i) # {} /\ f \notin OFm(o, i) THEN <<>>
  ELSE IF fuel = 0 THEN <<<<d, i>>>>
  ELSE <<<<d, i>>>> \o (IF max = 0 \/ d < max THEN OFileDfsList(o, OSubSeq(o, i), f, d + 1, max, fuel - 1) ELSE <<>>)
OFileDfsList(o, ids, f, d, max, fuel) ==
  IF ids = <<>> THEN <<>> ELSE OFileDfs(o, Head(ids), f, d, max, fuel) \o OFileDfsList(o, Tail(ids), f, d, max, fuel)

NavigationAgrees(o, cx) ==
  /\ \A m \in OModels(o) :
       LET rt == o.models[m].root IN
       /\ o.models[m].dfs = ODfsD(o, rt, 0, 0, Fuel(o))
       /\ o.models[m].dfs1 = ODfsD(o, rt, 0, 1, Fuel(o))
       /\ o.models[m].dfs2 = ODfsD(o, rt, 0, 2, Fuel(o))
       /\ \A i \in cx.reach[m] :
            /\ o.n[i].sub = OSubSeq(o, i)
            /\ o.n[i].edfs = ODfsD(o, i, 0, 0, Fuel(o))
       /\ \A j \in 1..Len(o.models[m].files) :
            LET f == o.models[m].files[j] IN
            /\ o.f[f].dfs = OFileDfs(o, rt, f, 0, 0, Fuel(o))
            /\ o.f[f].dfs1 = OFileDfs(o, rt, f, 0, 1, Fuel(o))
            /\ o.f[f].dfs2 = OFileDfs(o, rt, f, 0, 2, Fuel(o))
            /\ o.f[f].dfs3 = OFileDfs(o, rt, f, 0, 3, Fuel(o))

\* handles that are not part of any tree: every place-dependent question is answered with an error
StaleHandlesInert(o, cx) ==
  \A i \in 1..Len(o.n) :
     i \notin cx.all =>
        /\ o.n[i].par.t = "x"
        /\ o.n[i].model.t = "err"
        /\ o.n[i].path.t = "err"
        /\ o.n[i].fmq.t = "err"

\* ---------------------------------------------------------------------------------------------- C04
TIdent(o, i) == /\ OKnown(o, i) /\ OKindRec(o, i).named /\ Len(OCont(o, i)) > 0 /\ OCont(o, i)[1].t = "e"
                /\ OName(o, OCont(o, i)[1].id) = "SHORT-NAME"
TNameOf(o, i) == IF TIdent(o, i)
                 THEN LET sn == OCont(o, i)[1].id IN
                      IF Len(OCont(o, sn)) = 1 /\ OCont(o, sn)[1].t = "c" /\ OCont(o, sn)[1].v.k = "s"
                      THEN <<OCont(o, sn)[1].v.v>> ELSE <<>>
                 ELSE <<>>
\* the tree-computed path of a node: names of all named ancestors and itself, top-down (walk bounded by fuel)
RECURSIVE TPathF(_, _, _)
TPathF(o, i, fuel) ==
  IF fuel = 0 \/ o.n[i].par.t # "e" THEN TNameOf(o, i)
  ELSE TPathF(o, o.n[i].par.v, fuel - 1) \o TNameOf(o, i)
TPath(o, i) == TPathF(o, i, Fuel(o))

PathsUnique(o, cx) == \A m \in OModels(o) : \A a, b \in cx.truth[m] : a[1] = b[1] => a[2] = b[2]
IdxExact(o, cx) ==
  \A m \in OModels(o) :
     LET T == cx.truth[m]
         L == o.models[m].idx IN
     /\ {<<L[j][1], L[j][2]>> : j \in 1..Len(L)} = T
     /\ Len(L) = Cardinality(T)
LookupExact(o, cx) ==
  \A m \in OModels(o) :
     LET T == cx.truth[m]
         L == o.models[m].lookup IN
     \A j \in 1..Len(L) :
        LET hit == {t \in T : t[1] = L[j][1]} IN
        IF hit = {} THEN L[j][2] = 0 ELSE \E t \in hit : t[2] = L[j][2]
PathIsAncestorNames(o, cx) ==
  \A m \in OModels(o) : \A i \in cx.reach[m] :
     /\ o.n[i].ident = TIdent(o, i)
     /\ o.n[i].name = TNameOf(o, i)
     /\ IF TIdent(o, i) THEN o.n[i].path.t = "ok" /\ <<o.n[i].path.v, i>> \in cx.truth[m] ELSE o.n[i].path.t = "err"

\* ---------------------------------------------------------------------------------------------- C05
TIsRefText(o, i) == /\ OKnown(o, i) /\ OKindRec(o, i).isref /\ Len(OCont(o, i)) = 1 /\ OCont(o, i)[1].t = "c"
                    /\ OCont(o, i)[1].v.k = "p"
TRefText(o, i) == OCont(o, i)[1].v.v
TRefs(o, cx, m) == {i \in cx.reach[m] : TIsRefText(o, i)}
RefoList(o, m, p) == LET R == o.models[m].refo
                         S == {j \in 1..Len(R) : R[j][1] = p}
                     IN IF S = {} THEN <<>> ELSE R[CHOOSE j \in S : TRUE][2]
RefoExact(o, cx) ==
  \A m \in OModels(o) :
     LET R == o.models[m].refo
         RS == TRefs(o, cx, m)
         rch == cx.reach[m]
         keys == {R[j][1] : j \in 1..Len(R)} \cup {TRefText(o, r) : r \in RS} IN
     /\ \A p \in keys :
          SelectSeq(RefoList(o, m, p), LAMBDA x : x \in rch) = PSortInts({r \in RS : TRefText(o, r) = p})
     /\ \A j \in 1..Len(o.models[m].refsto) :         \* the public query agrees with the map it is answered from
          o.models[m].refsto[j][2] = RefoList(o, m, o.models[m].refsto[j][1])
DestOf(o, r) == LET A == o.n[r].at
                    S == {j \in 1..Len(A) : A[j].n = "DEST"} IN
                IF S = {} THEN "" ELSE IF A[CHOOSE j \in S : TRUE].v.k = "e" THEN A[CHOOSE j \in S : TRUE].v.v ELSE ""
Designated(o, cx, m, r) == LET hit == {t \in cx.truth[m] : t[1] = TRefText(o, r)} IN
                       IF hit = {} THEN 0 ELSE (CHOOSE t \in hit : TRUE)[2]
Resolves(o, cx, m, r) == LET t == Designated(o, cx, m, r) IN
                     /\ t # 0
                     /\ \E j \in 1..Len(OKindRec(o, t).refdest) : OKindRec(o, t).refdest[j] = DestOf(o, r)
ReportExact(o, cx) ==
  \A m \in OModels(o) :
     \* (entries whose element no longer exists -- id 0 -- are not references of the model and are ignored)
     PSeqToSet(o.models[m].broken) \ {0} = {r \in TRefs(o, cx, m) : ~Resolves(o, cx, m, r)}
ReportIffUnresolvable(o, cx) ==
  \A m \in OModels(o) : \A r \in TRefs(o, cx, m) :
     LET d == Designated(o, cx, m, r) IN
     (r \notin PSeqToSet(o.models[m].broken)) <=> (o.n[r].tgt.t = "ok" /\ d # 0 /\ o.n[r].tgt.v = d)

\* ---------------------------------------------------------------------------------------------- C10
RECURSIVE EffF(_, _, _)
EffF(o, i, fuel) == IF OFm(o, i) # {} \/ fuel = 0 \/ o.n[i].par.t # "e" THEN OFm(o, i) ELSE EffF(o, o.n[i].par.v, fuel - 1)
Eff(o, i) == EffF(o, i, Fuel(o))
MembershipWithinParent(o, cx) ==
  \A m \in OModels(o) : \A i \in cx.reach[m] :
     (OFm(o, i) # {} /\ o.n[i].par.t = "e") => OFm(o, i) \subseteq Eff(o, o.n[i].par.v)
MembershipWithinModel(o, cx) ==
  \A m \in OModels(o) : \A i \in cx.reach[m] : OFm(o, i) \subseteq PSeqToSet(o.models[m].files)
EveryElementWritten(o, cx) ==
  \A m \in OModels(o) : o.models[m].files # <<>> => \A i \in cx.reach[m] : Eff(o, i) # {}

\* element n is written to file f: no node on the chain from the root to n carries a local set that lacks f
RECURSIVE InFileF(_, _, _, _)
InFileF(o, i, f, fuel) == /\ (OFm(o, i) = {} \/ f \in OFm(o, i))
                          /\ (fuel = 0 \/ o.n[i].par.t # "e" \/ InFileF(o, o.n[i].par.v, f, fuel - 1))
InFile(o, i, f) == InFileF(o, i, f, Fuel(o))
\* what serialising file f and loading that text on its own must give: the attributed elements, in document order
ExpCd(o, i) == IF Len(OCont(o, i)) = 1 /\ OCont(o, i)[1].t = "c" /\ OKnown(o, i) /\ OKindRec(o, i).mode \in {"Characters", "Mixed"}
               THEN OCont(o, i)[1].v ELSE [k |-> "none", v |-> ""]
FileTextExact(o, cx) ==
  \A m \in OModels(o) : \A j \in 1..Len(o.models[m].files) :
     LET f == o.models[m].files[j] IN
     \* every file of the model has a text: it contains at least the root element
     /\ f \in OFm(o, o.models[m].root)
     /\ "ser" \in DOMAIN o.f[f] =>
          LET D == OFileDfs(o, o.models[m].root, f, 0, 0, Fuel(o)) IN
          /\ o.f[f].ser.t = "ok"
          /\ o.f[f].ser.els = [q \in 1..Len(D) |-> <<D[q][1], OName(o, D[q][2]), ExpCd(o, D[q][2])>>]
\* removing a file removes exactly the elements attributed to it alone and leaves the other files' content unchanged
RemoveFileExact(o, cx, ev, res, o2, cx2) ==
  (ev.op = "RemoveFile" /\ \E j \in 1..Len(o.models[ev.m].files) : o.models[ev.m].files[j] = ev.f) =>
     LET m == ev.m
         others == PSeqToSet(o.models[m].files) \ {ev.f} IN
     /\ PSeqToSet(o2.models[m].files) = others
     /\ cx.reach[m] \ cx2.reach[m] = {i \in cx.reach[m] : i # o.models[m].root /\ \A g \in others : ~InFile(o, i, g)}
     /\ \A g \in others : o2.f[g].dfs = o.f[g].dfs
                           /\ ("ser" \in DOMAIN o.f[g] /\ "ser" \in DOMAIN o2.f[g] => o2.f[g].ser.els = o.f[g].ser.els)

\* ---------------------------------------------------------------------------------------------- C11, C12 (action)
FailedNoEffect(o, ev, res, o2) == res.t = "err" => o2 = o
NoPanicNoHangNoSpuriousLock(o, ev, res, o2) ==
  /\ res.t \notin {"panic", "hang"}
  /\ ~(res.t = "err" /\ res.v = "ParentElementLocked")

\* a call through a handle that is not part of any tree fails and changes nothing
PlaceOps == {"CreateSub", "CreateNamed", "Copy", "Move", "Remove", "RemoveKind", "Rename", "AddToFile", "RemoveFromFile", "SetRef", "SetText"}
StaleCallsFail(o, cx, ev, res, o2) ==
  (ev.op \in PlaceOps /\ ((ev.p \notin cx.all) \/ (ev.op = "Move" /\ ev.c \notin cx.all))) =>
     (res.t = "err" /\ o2 = o)

\* ---------------------------------------------------------------------------------------------- C06 (action)
ModelOf(o, cx, i) == IF \E m \in OModels(o) : i \in cx.reach[m] THEN CHOOSE m \in OModels(o) : i \in cx.reach[m] ELSE 0
RefsFollow(o, cx, ev, res, o2, cx2) ==
  (ev.op \in {"Rename", "Move"} /\ res.t = "ok") =>
     LET x == IF ev.op = "Rename" THEN ev.p ELSE ev.c
         m == ModelOf(o, cx, x)
         m2 == ModelOf(o2, cx2, x)
         sub == PSeqToSet(ODfs(o, x)) IN
     m # 0 /\ m2 # 0 =>
       IF m = m2 THEN
          \A r \in TRefs(o, cx, m) \cap TRefs(o2, cx2, m) :
             LET t == Designated(o, cx, m, r) IN
             \* (the reference designates the same element object: by its text, and as the library itself resolves it)
             IF t # 0 /\ t \in sub THEN /\ Designated(o2, cx2, m, r) = t
                                        /\ (o.n[r].tgt.t = "ok" /\ o.n[r].tgt.v = t) => (o2.n[r].tgt.t = "ok" /\ o2.n[r].tgt.v = t)
             ELSE TRefText(o2, r) = TRefText(o, r)
       ELSE
          \A r \in TRefs(o, cx, m) \cap sub :
             LET t == Designated(o, cx, m, r) IN
             (t # 0 /\ t \in sub /\ TIsRefText(o2, r)) =>
                 /\ Designated(o2, cx2, m2, r) = t
                 /\ (o.n[r].tgt.t = "ok" /\ o.n[r].tgt.v = t) => (o2.n[r].tgt.t = "ok" /\ o2.n[r].tgt.v = t)

\* ---------------------------------------------------------------------------------------------- C13 (action)
ChildAllowed(k, name, v) == \E i \in 1..Len(Schema[k].children) :
                               Schema[k].children[i].name = name /\ (\E j \in 1..Len(Schema[k].children[i].mask) : Schema[k].children[i].mask[j] = v)
AttrAllowed(k, a, v) ==
  \E i \in 1..Len(Schema[k].attrs) :
     LET sp == Schema[k].attrs[i] IN
     /\ sp.name = a.n
     /\ (\E j \in 1..Len(sp.mask) : sp.mask[j] = v)
     /\ (sp.spec.k = "Enum" /\ a.v.k = "e") =>
           \E q \in 1..Len(sp.spec.items) : sp.spec.items[q].i = a.v.v /\ (\E j \in 1..Len(sp.spec.items[q].mask) : sp.spec.items[q].mask[j] = v)
\* canonical form of a subtree: kinds, attributes, comments, values, in order -- no node identities.
\* filt = TRUE: only what is permitted in version v;  wild = TRUE: the item name of the root is replaced by "*"
\* an element is itself "not permitted" in version v when its enumeration value does not exist there, or when an
\* attribute it must have is not permitted there
CdOk(o, i, v) ==
  \A j \in 1..Len(OCont(o, i)) :
     LET c == OCont(o, i)[j] IN
     (c.t = "c" /\ OKindRec(o, i).cdata.k = "Enum") =>
        (c.v.k = "e" /\ \E q \in 1..Len(OKindRec(o, i).cdata.items) :
            OKindRec(o, i).cdata.items[q].i = c.v.v /\ (\E z \in 1..Len(OKindRec(o, i).cdata.items[q].mask) : OKindRec(o, i).cdata.items[q].mask[z] = v))
ReqAttrOk(o, i, v) ==
  \A j \in 1..Len(o.n[i].at) :
     LET a == o.n[i].at[j] IN
     AttrAllowed(o.n[i].k, a, v) \/ ~(\E q \in 1..Len(OKindRec(o, i).attrs) : OKindRec(o, i).attrs[q].name = a.n /\ OKindRec(o, i).attrs[q].req)
Copyable(o, i, v) == OKnown(o, i) /\ CdOk(o, i, v) /\ ReqAttrOk(o, i, v)
RECURSIVE Canon(_, _, _, _, _, _)
Canon(o, i, filt, v, wild, fuel) ==
  LET k == o.n[i].k
      A == o.n[i].at
      C == OCont(o, i)
      keepA == SelectSeq(A, LAMBDA a : ~filt \/ AttrAllowed(k, a, v))
      keepC == SelectSeq(C, LAMBDA c : c.t = "c" \/ ~filt \/ (ChildAllowed(k, OName(o, c.id), v) /\ Copyable(o, c.id, v))) IN
  [k |-> k, at |-> keepA, cmt |-> o.n[i].cmt,
   items |-> [j \in 1..Len(keepC) |->
                IF keepC[j].t = "c" THEN [t |-> "c", x |-> keepC[j].v]
                ELSE IF wild /\ j = 1 /\ OName(o, keepC[j].id) = "SHORT-NAME" THEN [t |-> "e", x |-> "*"]
                ELSE IF fuel = 0 THEN [t |-> "e", x |-> "..."]
                ELSE [t |-> "e", x |-> Canon(o, keepC[j].id, filt, v, FALSE, fuel - 1)]]]
SuffixNameP(orig, k) == IF k = 0 THEN orig ELSE orig \o "_" \o ToString(k)
CopyFaithful(o, cx, ev, res, o2, cx2) ==
  (ev.op = "Copy" /\ res.t = "ok" /\ ev.c \in cx.all /\ OKnown(o, ev.c) /\ o.n[ev.p].minv.t = "ok") =>
     LET new == res.v
         v == o.n[ev.p].minv.v
         m == ModelOf(o, cx, ev.p)
         D == PSeqToSet(ODfs(o2, new)) IN
     /\ Canon(o2, new, FALSE, v, TRUE, Fuel(o2)) = Canon(o, ev.c, TRUE, v, TRUE, Fuel(o))
     /\ \A x \in D : x > Len(o.n)                       \* no node object is shared with the source
     /\ TNameOf(o, ev.c) # <<>> =>
           LET orig == TNameOf(o, ev.c)[1]
               pp == TPath(o, ev.p)
               taken == \E t \in cx.truth[m] : t[1] = pp \o <<orig>> IN
           /\ TNameOf(o2, new) # <<>>
           /\ IF taken THEN \E q \in 1..9 : TNameOf(o2, new)[1] = SuffixNameP(orig, q) ELSE TNameOf(o2, new)[1] = orig
\* "makes every copied identifiable element and reference findable in the destination model": every identifiable element of the
\* copy is in the path index under its own path, and every reference of the copy is listed among the referrers of its text.
\* For duplicate(): the same for the whole new model.
CopyFindable(o, cx, ev, res, o2, cx2) ==
  /\ (ev.op = "Copy" /\ res.t = "ok") =>
        LET new == res.v
            m == ModelOf(o2, cx2, new)
            D == PSeqToSet(ODfs(o2, new)) IN
        m # 0 =>
          /\ \A x \in D : (TIdent(o2, x) /\ TNameOf(o2, x) # <<>>) =>
                 \E j \in 1..Len(o2.models[m].idx) : o2.models[m].idx[j][2] = x /\ o2.models[m].idx[j][1] = TPath(o2, x)
          /\ \A r \in D \cap TRefs(o2, cx2, m) : \E j \in 1..Len(RefoList(o2, m, TRefText(o2, r))) : RefoList(o2, m, TRefText(o2, r))[j] = r
  /\ (ev.op = "Duplicate" /\ res.t = "ok" /\ res.v \in OModels(o2)) =>
        LET d == res.v IN
        /\ \A x \in cx2.reach[d] : (TIdent(o2, x) /\ TNameOf(o2, x) # <<>>) =>
               \E j \in 1..Len(o2.models[d].idx) : o2.models[d].idx[j][2] = x /\ o2.models[d].idx[j][1] = TPath(o2, x)
        /\ \A r \in TRefs(o2, cx2, d) : \E j \in 1..Len(RefoList(o2, d, TRefText(o2, r))) : RefoList(o2, d, TRefText(o2, r))[j] = r
\* ... "and still validates": the destination's files re-load without any version complaint they did not have before
VersionKinds == {"ElementVersionError", "AttributeVersionError", "EnumItemVersionError"}
CopyStillValidates(o, cx, ev, res, o2, cx2) ==
  (ev.op = "Copy" /\ res.t = "ok") =>
     LET m == ModelOf(o2, cx2, res.v) IN
     m # 0 => \A j \in 1..Len(o2.models[m].files) :
                LET g == o2.models[m].files[j] IN
                (g <= Len(o.f) /\ "ser" \in DOMAIN o.f[g] /\ "ser" \in DOMAIN o2.f[g]) =>
                   (PSeqToSet(o2.f[g].ser.warnk) \cap VersionKinds) \subseteq (PSeqToSet(o.f[g].ser.warnk) \cap VersionKinds)
\* C07 (b): no successful editing call makes the lenient reload of a file complain about anything new except a
\* required attribute that was never set
EditsStayValid(o, cx, ev, res, o2, cx2) ==
  (ev.op \notin {"Load", "reset"} /\ res.t = "ok") =>
     \A g \in 1..Len(o.f) :
        (g <= Len(o2.f) /\ "ser" \in DOMAIN o.f[g] /\ "ser" \in DOMAIN o2.f[g] /\ o.f[g].ser.t = "ok" /\ o2.f[g].ser.t = "ok") =>
           (PSeqToSet(o2.f[g].ser.warnk) \ PSeqToSet(o.f[g].ser.warnk)) \subseteq {"RequiredAttributeMissing"}
TreeFields(o, i) == [k |-> o.n[i].k, par |-> o.n[i].par, cont |-> o.n[i].cont, at |-> o.n[i].at, cmt |-> o.n[i].cmt, fm |-> o.n[i].fm]
CopySourceUnchanged(o, cx, ev, res, o2, cx2) ==
  (ev.op = "Copy" /\ res.t = "ok") => \A i \in 1..Len(o.n) : i # ev.p => TreeFields(o2, i) = TreeFields(o, i)
ModelView(o, m) == [root |-> o.models[m].root, files |-> o.models[m].files, idx |-> o.models[m].idx, refo |-> o.models[m].refo,
                    dfs |-> o.models[m].dfs, broken |-> o.models[m].broken]
ModelsIndependent(o, cx, ev, res, o2, cx2) ==
  LET touched == (IF ev.p # 0 THEN {ModelOf(o, cx, ev.p)} ELSE {}) \cup (IF ev.m # 0 THEN {ev.m} ELSE {})
                 \cup (IF ev.op = "Move" THEN {ModelOf(o, cx, ev.c)} ELSE {}) IN
  \A mm \in OModels(o) :
     (mm \notin touched /\ mm \in OModels(o2)) =>
        /\ ModelView(o2, mm) = ModelView(o, mm)
        /\ \A i \in cx.reach[mm] : TreeFields(o2, i) = TreeFields(o, i)
\* a duplicated model serializes each file to exactly the text of the original
DuplicateSameText(o, cx, ev, res, o2, cx2) ==
  (ev.op = "Duplicate" /\ res.t = "ok") =>
     LET m == ev.m
         d == res.v IN
     /\ d \in OModels(o2) /\ Len(o2.models[d].files) = Len(o.models[m].files)
     /\ \A j \in 1..Len(o.models[m].files) :
          LET f == o.models[m].files[j]
              g == o2.models[d].files[j] IN
          /\ o2.f[g].name = o.f[f].name /\ o2.f[g].ver = o.f[f].ver
          /\ ("ser" \in DOMAIN o.f[f] /\ "ser" \in DOMAIN o2.f[g]) => (o2.f[g].ser.h = o.f[f].ser.h /\ o2.f[g].ser.els = o.f[f].ser.els)

\* everything derived from the tree that several predicates need, computed once per observation
Ctx(o) ==
  LET R == [m \in OModels(o) |-> OReach(o, m)] IN
  [reach |-> R, all |-> UNION {R[m] : m \in OModels(o)},
   truth |-> [m \in OModels(o) |-> {<<TPath(o, i), i>> : i \in {x \in R[m] : TIdent(o, x)}}]]
StatePropsCx(o, cx) ==
  [TreeOK |-> TreeOK(o, cx), NavigationAgrees |-> NavigationAgrees(o, cx), StaleHandlesInert |-> StaleHandlesInert(o, cx),
   PathsUnique |-> PathsUnique(o, cx), IdxExact |-> IdxExact(o, cx), LookupExact |-> LookupExact(o, cx),
   PathIsAncestorNames |-> PathIsAncestorNames(o, cx),
   RefoExact |-> RefoExact(o, cx), ReportExact |-> ReportExact(o, cx), ReportIffUnresolvable |-> ReportIffUnresolvable(o, cx),
   MembershipWithinParent |-> MembershipWithinParent(o, cx), MembershipWithinModel |-> MembershipWithinModel(o, cx),
   EveryElementWritten |-> EveryElementWritten(o, cx), FileTextExact |-> FileTextExact(o, cx)]
StateProps(o) == StatePropsCx(o, Ctx(o))
ActionPropsCx(o, cx, ev, res, o2, cx2) ==
  [FailedNoEffect |-> FailedNoEffect(o, ev, res, o2),
   NoPanicNoHangNoSpuriousLock |-> NoPanicNoHangNoSpuriousLock(o, ev, res, o2),
   StaleCallsFail |-> StaleCallsFail(o, cx, ev, res, o2),
   RefsFollow |-> RefsFollow(o, cx, ev, res, o2, cx2),
   RemoveFileExact |-> RemoveFileExact(o, cx, ev, res, o2, cx2),
   CopyFaithful |-> CopyFaithful(o, cx, ev, res, o2, cx2), CopyFindable |-> CopyFindable(o, cx, ev, res, o2, cx2), CopyStillValidates |-> CopyStillValidates(o, cx, ev, res, o2, cx2),
   CopySourceUnchanged |-> CopySourceUnchanged(o, cx, ev, res, o2, cx2), EditsStayValid |-> EditsStayValid(o, cx, ev, res, o2, cx2),
   ModelsIndependent |-> ModelsIndependent(o, cx, ev, res, o2, cx2), DuplicateSameText |-> DuplicateSameText(o, cx, ev, res, o2, cx2)]
ActionProps(o, ev, res, o2) == ActionPropsCx(o, Ctx(o), ev, res, o2, Ctx(o2))
PropertyOf(p) ==
  CASE p \in {"TreeOK", "NavigationAgrees", "StaleHandlesInert", "StaleCallsFail"} -> "C03"
    [] p \in {"PathsUnique", "IdxExact", "LookupExact", "PathIsAncestorNames"} -> "C04"
    [] p \in {"RefoExact", "ReportExact", "ReportIffUnresolvable"} -> "C05"
    [] p = "RefsFollow" -> "C06"
    [] p \in {"MembershipWithinParent", "MembershipWithinModel", "EveryElementWritten", "FileTextExact", "RemoveFileExact"} -> "C10"
    [] p = "FailedNoEffect" -> "C11"
    [] p = "NoPanicNoHangNoSpuriousLock" -> "C12"
    [] p = "EditsStayValid" -> "C07"
    [] OTHER -> "C13"
=============================================================================
