SPECIFICATION Spec
CHECK_DEADLOCK FALSE
POSTCONDITION Consumed
CONSTANTS
  Schema <- SchemaDef
  InvalidNames = {"1x"}
  MaxSuffix = 3
  KF = {"F7"}
  NM = 2
