------------------------------ MODULE MC_core ------------------------------
(* TLC model of the core engine: explores all histories of the enabled operations up to Depth from a     *)
(* fixture, checks the property predicates on every state, and emits one JSON line per transition of the *)
(* state graph for replay on the real library.                                                            *)
EXTENDS ArxmlObs, Json, IOUtils, SchemaData

CONSTANTS NM,          \* number of models
          Fix,         \* fixture: sequence of actions applied to the empty universe
          Depth,       \* bound on the length of the explored history
          Ops,         \* set of enabled operation names
          ElemNames,   \* element names used by CreateSub / RemoveKind
          NamedNames,  \* element names used by CreateNamed
          ItemNames,   \* item names
          PosSet,      \* explicit positions tried by the -at variants (besides "no position")
          FileNames, Vers,
          Wild,        \* TRUE: handle arguments range over all nodes; FALSE: only plausible ones
          Emit,        \* TRUE: print one JSON line per transition (for replay on the real library)
          AttrValues,  \* set of <<attribute name, value>> used by SetAttr / RemoveAttr
          DocNames,    \* names of the catalogue documents used by Load
          CheckProps   \* TRUE: evaluate the property predicates on every state / transition of the specification

VARIABLES st, hist

P == INSTANCE ArxmlProps

A0 == [op |-> "", m |-> 0, p |-> 0, c |-> 0, k |-> "", name |-> "", pos |-> -1, val |-> SVal(""), an |-> "", f |-> 0, ver |-> ""]

RECURSIVE ApplyAll(_, _)
ApplyAll(s, as) == IF as = <<>> THEN s ELSE ApplyAll((CHOOSE o \in Do(s, Head(as)) : TRUE).st, Tail(as))
FixState == ApplyAll(EmptyState(NM), Fix)

ChildrenOf(s, p) == {Cont(s, p)[j].id : j \in {x \in 1..Len(Cont(s, p)) : Cont(s, p)[x].t = "e"}}
TextValues(s, p) ==
  LET k == Kind(s, p) IN
  IF KIsRef(k) THEN {PVal(<<a>>) : a \in ItemNames} \cup {PVal(<<a, b>>) : a \in ItemNames, b \in ItemNames}
  ELSE IF KName(k) = "SHORT-NAME" THEN {SVal(a) : a \in ItemNames \cup InvalidNames}
  ELSE IF ~HasSpec(k) THEN {SVal("x")}
  ELSE CASE Schema[k].cdata.k = "Enum" -> {EVal(Schema[k].cdata.items[i].i) : i \in 1..Len(Schema[k].cdata.items)}
         [] Schema[k].cdata.k = "UInt" -> {UVal("7")}
         [] OTHER -> {SVal("x"), SVal("y")}

Actions(s) ==
  LET N == NodeIds(s)
      Files == 1..Len(s.f)
  IN
     (IF "CreateSub" \in Ops THEN {[A0 EXCEPT !.op = "CreateSub", !.p = p, !.k = k, !.pos = ps] : p \in N, k \in ElemNames, ps \in {-1} \cup PosSet} ELSE {})
     \cup (IF "CreateNamed" \in Ops THEN {[A0 EXCEPT !.op = "CreateNamed", !.p = p, !.k = k, !.name = nm, !.pos = ps] : p \in N, k \in NamedNames, nm \in ItemNames, ps \in {-1} \cup PosSet} ELSE {})
     \cup (IF "Remove" \in Ops THEN {[A0 EXCEPT !.op = "Remove", !.p = p, !.c = c] : p \in N, c \in (IF Wild THEN N ELSE {})} \cup
                                     {[A0 EXCEPT !.op = "Remove", !.p = p, !.c = c] : <<p, c>> \in {<<x, y>> \in N \X N : y \in ChildrenOf(s, x)}} ELSE {})
     \cup (IF "RemoveKind" \in Ops THEN {[A0 EXCEPT !.op = "RemoveKind", !.p = p, !.k = k] : p \in N, k \in ElemNames} ELSE {})
     \cup (IF "Rename" \in Ops THEN {[A0 EXCEPT !.op = "Rename", !.p = p, !.name = nm] : p \in {x \in N : Wild \/ KNamed(Kind(s, x))}, nm \in ItemNames \cup {""} \cup InvalidNames} ELSE {})
     \cup (IF "Copy" \in Ops THEN {[A0 EXCEPT !.op = "Copy", !.p = p, !.c = c, !.pos = ps] : p \in N, c \in N, ps \in {-1} \cup PosSet} ELSE {})
     \cup (IF "Move" \in Ops THEN {[A0 EXCEPT !.op = "Move", !.p = p, !.c = c, !.pos = ps] : p \in N, c \in N, ps \in {-1} \cup PosSet} ELSE {})
     \cup (IF "SetRef" \in Ops THEN {[A0 EXCEPT !.op = "SetRef", !.p = p, !.c = c] : p \in {x \in N : Wild \/ KIsRef(Kind(s, x))}, c \in N} ELSE {})
     \cup (IF "SetText" \in Ops THEN UNION {{[A0 EXCEPT !.op = "SetText", !.p = p, !.val = v] : v \in TextValues(s, p)} : p \in {x \in N : Wild \/ KMode(Kind(s, x)) \in {"Characters", "Mixed"}}} ELSE {})
     \cup (IF "RemoveText" \in Ops THEN {[A0 EXCEPT !.op = "RemoveText", !.p = p] : p \in {x \in N : Wild \/ KMode(Kind(s, x)) \in {"Characters", "Mixed"}}} ELSE {})
     \cup (IF "CreateFile" \in Ops THEN {[A0 EXCEPT !.op = "CreateFile", !.m = m, !.name = fn, !.ver = v] : m \in 1..Len(s.root), fn \in FileNames, v \in Vers} ELSE {})
     \cup (IF "RemoveFile" \in Ops THEN {[A0 EXCEPT !.op = "RemoveFile", !.m = m, !.f = f] : m \in 1..Len(s.root), f \in Files} ELSE {})
     \cup (IF "AddToFile" \in Ops THEN {[A0 EXCEPT !.op = "AddToFile", !.p = p, !.f = f] : p \in N, f \in Files} ELSE {})
     \cup (IF "RemoveFromFile" \in Ops THEN {[A0 EXCEPT !.op = "RemoveFromFile", !.p = p, !.f = f] : p \in N, f \in Files} ELSE {})
     \cup (IF "Duplicate" \in Ops /\ Len(s.root) < NM + 1 THEN {[A0 EXCEPT !.op = "Duplicate", !.m = m] : m \in 1..Len(s.root)} ELSE {})
     \cup (IF "SetAttr" \in Ops THEN UNION {{[A0 EXCEPT !.op = "SetAttr", !.p = p, !.an = av[1], !.val = av[2]] : av \in AttrValues} : p \in N} ELSE {})
     \cup (IF "RemoveAttr" \in Ops THEN {[A0 EXCEPT !.op = "RemoveAttr", !.p = p, !.an = an] : p \in N, an \in {av[1] : av \in AttrValues}} ELSE {})
     \cup (IF "Load" \in Ops THEN {[A0 EXCEPT !.op = "Load", !.m = 1, !.k = d, !.name = d] : d \in DocNames}
                                   \cup {[A0 EXCEPT !.op = "Load", !.m = 1, !.k = d, !.name = d, !.ver = "lenient"] : d \in DocNames \cap {"pv", "pe"}} ELSE {})
     \* a text item is inserted only where it does not touch another text item (two adjacent text runs are one run in the written file)
     \cup (IF "InsertText" \in Ops THEN UNION {{[A0 EXCEPT !.op = "InsertText", !.p = p, !.pos = ps, !.name = "ins"] :
                                                   ps \in {q \in 0..Len(Cont(s, p)) : (q = 0 \/ Cont(s, p)[q].t = "e") /\ (q = Len(Cont(s, p)) \/ Cont(s, p)[q + 1].t = "e")} \cup {Len(Cont(s, p)) + 1}} :
                                                 p \in {x \in N : Wild \/ KMode(Kind(s, x)) = "Mixed"}} ELSE {})
     \cup (IF "RemoveTextItem" \in Ops THEN UNION {{[A0 EXCEPT !.op = "RemoveTextItem", !.p = p, !.pos = ps] : ps \in 0..Len(Cont(s, p))} :
                                                     p \in {x \in N : Wild \/ KMode(Kind(s, x)) = "Mixed"}} ELSE {})
     \cup (IF "SetComment" \in Ops THEN {[A0 EXCEPT !.op = "SetComment", !.p = p, !.name = cm] : p \in N, cm \in {"", "c--d"}} ELSE {})

Red(s) == [n |-> s.n, f |-> s.f,
           models |-> [m \in 1..Len(s.root) |-> [root |-> s.root[m], files |-> s.files[m], idx |-> s.idx[m], refo |-> s.refo[m],
                                                  broken |-> SortInts(Broken(s, m))]]]

Init == /\ st = FixState /\ hist = <<>>
        /\ PrintT(<<"FIX", ToJson(Fix)>>)
        /\ (IF Depth = 0 THEN PrintT(<<"DOCS", ToJson([d \in DOMAIN LoadDocs |-> LoadText(d)])>>) ELSE TRUE)

Next == /\ Len(hist) < Depth
        /\ LET so == SpecObs(st)
               cx == P!Ctx(so) IN
           \E a \in Actions(st) : \E o \in Do(st, a) :
              LET noeffect == o.st = st IN
              /\ st' = o.st
              /\ hist' = Append(hist, a)
              /\ (IF Emit THEN PrintT(<<"T", ToJson([h |-> hist, a |-> a, res |-> o.res,
                                                     post |-> IF noeffect THEN [same |-> TRUE] ELSE Red(o.st)])>>) ELSE TRUE)
              /\ (IF ~CheckProps THEN TRUE
                  ELSE IF noeffect /\ o.res.t = "err" THEN
                       \* a failing call without effect satisfies every action predicate except possibly the lock one
                       (IF o.res.v = "ParentElementLocked"
                        THEN PrintT(<<"APROPFAIL", "NoPanicNoHangNoSpuriousLock", ToJson([h |-> hist, a |-> a, res |-> o.res])>>) ELSE TRUE)
                  ELSE LET so2 == SpecObs(o.st)
                           r == P!ActionPropsCx(so, cx, a, o.res, so2, P!Ctx(so2)) IN
                       \A k \in DOMAIN r : IF r[k] THEN TRUE ELSE PrintT(<<"APROPFAIL", k, ToJson([h |-> hist, a |-> a, res |-> o.res])>>))

Spec == Init /\ [][Next]_<<st, hist>>
View == <<st, Len(hist)>>

\* a monitor rather than a stopping invariant: every failing (state, predicate) is printed with its witness history and
\* the exploration goes on, so one run collects all distinct failures
InvState == CheckProps =>
              LET r == P!StateProps(SpecObs(st)) IN
              \A k \in DOMAIN r : IF r[k] THEN TRUE ELSE PrintT(<<"PROPFAIL", k, ToJson(hist)>>)

SchemaDef == SchemaDataDef
=============================================================================
