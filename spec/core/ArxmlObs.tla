------------------------------ MODULE ArxmlObs ------------------------------
(* SpecObs(s): what the public API would answer in specification state s -- a model of the getters       *)
(* (parent, position, path, model, file_membership, iterators, lookups, reports) in the same record shape *)
(* as the observations logged from the real library.                                                      *)
EXTENDS Arxml

RECURSIVE DfsD(_, _, _, _)
RECURSIVE DfsListD(_, _, _, _)
DfsD(s, i, d, max) == <<<<d, i>>>> \o (IF max = 0 \/ d < max THEN DfsListD(s, SubIds(s, i), d + 1, max) ELSE <<>>)
DfsListD(s, ids, d, max) == IF ids = <<>> THEN <<>> ELSE DfsD(s, Head(ids), d, max) \o DfsListD(s, Tail(ids), d, max)

RECURSIVE FileDfs(_, _, _, _, _)
RECURSIVE FileDfsList(_, _, _, _, _)
FileDfs(s, i, f, d, max) ==
  IF s.n[i].fm # {} /\ f \notin s.n[i].fm THEN <<>>
  ELSE <<<<d, i>>>> \o (IF max = 0 \/ d < max THEN FileDfsList(s, SubIds(s, i), f, d + 1, max) ELSE <<>>)
FileDfsList(s, ids, f, d, max) == IF ids = <<>> THEN <<>> ELSE FileDfs(s, Head(ids), f, d, max) \o FileDfsList(s, Tail(ids), f, d, max)

ApiPos(s, i) == LET pr == s.n[i].par IN
                IF pr.t # "e" THEN -1 ELSE PosOfChild(s, pr.v, i) - 1
DestAttr(s, r) == LET A == s.n[r].at
                      S == {j \in 1..Len(A) : A[j].n = "DEST"} IN
                  IF S = {} THEN "" ELSE IF A[Min(S)].v.k = "e" THEN A[Min(S)].v.v ELSE ""
DestFits(s, r, tg) == \E j \in 1..Len(Schema[Kind(s, tg)].refdest) : Schema[Kind(s, tg)].refdest[j] = DestAttr(s, r)
ApiTarget(s, r) ==
  IF ~KIsRef(Kind(s, r)) THEN [t |-> "na", v |-> 0]
  ELSE IF ~HasRefData(s, r) THEN [t |-> "err", v |-> "InvalidReference"]
  ELSE LET md == ApiModel(s, r) IN
       IF md.t = "err" THEN [t |-> "err", v |-> md.v]
       ELSE LET tg == Lookup(s, md.v, CData(s, r).v) IN
            IF tg = 0 \/ DestAttr(s, r) = "" THEN [t |-> "err", v |-> "InvalidReference"]
            ELSE IF DestFits(s, r, tg) THEN [t |-> "ok", v |-> tg] ELSE [t |-> "err", v |-> "InvalidReference"]

\* check_references()
Broken(s, m) ==
  UNION {LET p == e[1] l == e[2] tg == Lookup(s, m, p) IN
         IF tg = 0 THEN SeqToSet(l)
         ELSE {l[j] : j \in {x \in 1..Len(l) : ~(DestAttr(s, l[x]) # "" /\ DestFits(s, l[x], tg))}} : e \in s.refo[m]}

ObsNode(s, i) ==
  LET fq == ApiFm(s, i) IN
  [k |-> s.n[i].k, par |-> s.n[i].par, cont |-> s.n[i].cont, at |-> s.n[i].at, cmt |-> s.n[i].cmt,
   fm |-> SortInts(s.n[i].fm),
   pos |-> ApiPos(s, i), sub |-> SubIds(s, i), name |-> ItemName(s, i), ident |-> IsIdent(s, i),
   path |-> ApiPath(s, i), model |-> ApiModel(s, i),
   fmq |-> [t |-> fq.t, local |-> fq.local, set |-> SortInts(fq.set), v |-> fq.v],
   minv |-> MinVersion(s, i), edfs |-> DfsD(s, i, 0, 0), tgt |-> ApiTarget(s, i)]

Probes(s, m) == {e[1] : e \in s.idx[m]} \cup {e[1] : e \in s.refo[m]}
                \cup {ApiPath(s, i).v : i \in {x \in NodeIds(s) : ApiPath(s, x).t = "ok"}}
ObsModel(s, m) ==
  LET P == SetToSeqAny(Probes(s, m)) IN
  [root |-> s.root[m], files |-> s.files[m],
   idx |-> SetToSeqAny(s.idx[m]), refo |-> SetToSeqAny(s.refo[m]),
   dfs |-> DfsD(s, s.root[m], 0, 0), dfs1 |-> DfsD(s, s.root[m], 0, 1), dfs2 |-> DfsD(s, s.root[m], 0, 2),
   lookup |-> [j \in 1..Len(P) |-> <<P[j], Lookup(s, m, P[j])>>],
   refsto |-> SetToSeqAny({<<e[1], e[2]>> : e \in s.refo[m]}),
   broken |-> SortInts(Broken(s, m))]
ObsFile(s, f) ==
  LET m == s.f[f].m IN
  [name |-> s.f[f].name, ver |-> s.f[f].ver, m |-> m,
   dfs |-> FileDfs(s, s.root[m], f, 0, 0), dfs1 |-> FileDfs(s, s.root[m], f, 0, 1), dfs2 |-> FileDfs(s, s.root[m], f, 0, 2),
   dfs3 |-> FileDfs(s, s.root[m], f, 0, 3)]

SpecObs(s) == [n |-> [i \in 1..Len(s.n) |-> ObsNode(s, i)],
               models |-> [m \in 1..Len(s.root) |-> ObsModel(s, m)],
               f |-> [f \in 1..Len(s.f) |-> ObsFile(s, f)]]
=============================================================================
