------------------------------ MODULE ArxmlKF ------------------------------
(* Signatures of the known findings (known_findings.json): predicates over one failing step               *)
(* (pre-observation, event, result, post-observation).  A failing step that satisfies the signature of a   *)
(* listed finding is reported as KNOWN-FINDING; any other failing step is a VIOLATION.                     *)
EXTENDS Integers, Sequences, FiniteSets, TLC
CONSTANT Schema
P == INSTANCE ArxmlProps

RECURSIVE IsAnc(_, _, _, _)
IsAnc(o, a, i, fuel) == IF fuel = 0 \/ o.n[i].par.t # "e" THEN FALSE
                        ELSE IF o.n[i].par.v = a THEN TRUE ELSE IsAnc(o, a, o.n[i].par.v, fuel - 1)
IsPrefixS(a, b) == Len(a) <= Len(b) /\ SubSeq(b, 1, Len(a)) = a

\* F7: moving an element into one of its (non-parent) ancestors reports ParentElementLocked in single-threaded use
SigF7(pre, cx1, ev, res, post, cx2, pred) ==
  /\ pred = "NoPanicNoHangNoSpuriousLock"
  /\ ev.op = "Move" /\ res.t = "err" /\ res.v = "ParentElementLocked"
  /\ IsAnc(pre, ev.p, ev.c, Len(pre.n) + 1)
  /\ pre.n[ev.c].par.v # ev.p

\* F21: rename / move also rewrites dangling references whose text lies below the old path
RefsFollowBad(o, cx, ev, res, o2, cx2) ==
  LET x == IF ev.op = "Rename" THEN ev.p ELSE ev.c
      m == P!ModelOf(o, cx, x)
      m2 == P!ModelOf(o2, cx2, x)
      sub == P!PSeqToSet(P!ODfs(o, x)) IN
  IF ~(ev.op \in {"Rename", "Move"} /\ res.t = "ok") \/ m = 0 \/ m2 = 0 \/ m # m2 THEN {}
  ELSE {r \in P!TRefs(o, cx, m) \cap P!TRefs(o2, cx2, m) :
          LET t == P!Designated(o, cx, m, r) IN
          ~(IF t # 0 /\ t \in sub THEN P!Designated(o2, cx2, m, r) = t ELSE P!TRefText(o2, r) = P!TRefText(o, r))}
SigF21(pre, cx1, ev, res, post, cx2, pred) ==
  /\ pred = "RefsFollow"
  /\ LET bad == RefsFollowBad(pre, cx1, ev, res, post, cx2)
         x == IF ev.op = "Rename" THEN ev.p ELSE ev.c
         m == P!ModelOf(pre, cx1, x)
         \* the old path below which texts are rewritten: path of x, or of its nearest named ancestor for containers
         old == P!TPath(pre, x) IN
     /\ bad # {}
     /\ \A r \in bad : P!Designated(pre, cx1, m, r) = 0 /\ IsPrefixS(old, P!TRefText(pre, r))

\* F22: remove_from_file() called directly on the root element of a model takes the root out of a file that stays listed
SigF22(pre, cx1, ev, res, post, cx2, pred) ==
  /\ pred \in {"EveryElementWritten", "FileTextExact", "MembershipWithinModel"}
  /\ ev.op = "RemoveFromFile" /\ res.t = "ok"
  /\ \E m \in 1..Len(pre.models) : pre.models[m].root = ev.p

\* F26: copying / moving a non-identifiable container whose nested identifiable elements collide with existing paths
\* (only the copied / moved element itself is renamed for uniqueness)
SigF26(pre, cx1, ev, res, post, cx2, pred) ==
  /\ pred \in {"IdxExact", "PathsUnique", "LookupExact", "ReportExact", "ReportIffUnresolvable", "FileTextExact"}
  /\ ev.op \in {"Copy", "Move"} /\ res.t = "ok"
  /\ ~P!TIdent(post, res.v)
  /\ LET m == P!ModelOf(post, cx2, res.v)
         sub == P!PSeqToSet(P!ODfs(post, res.v)) IN
     m # 0 /\ \E a, b \in cx2.truth[m] : a[1] = b[1] /\ a[2] # b[2] /\ a[2] \in sub /\ b[2] \notin sub

\* F29: duplicate() of a model whose files have different versions copies everything with the oldest version
SigF29(pre, cx1, ev, res, post, cx2, pred) ==
  /\ pred \in {"DuplicateSameText", "MembershipWithinParent", "FileTextExact", "EveryElementWritten"}
  /\ ev.op = "Duplicate" /\ res.t = "ok"
  /\ \E i, j \in 1..Len(pre.models[ev.m].files) : pre.f[pre.models[ev.m].files[i]].ver # pre.f[pre.models[ev.m].files[j]].ver

\* F35: a SHORT-NAME element itself can be copied or moved into an element that has none (e.g. an element that a lenient load
\* left without a name): the receiving element becomes identifiable under a path that nothing checked for uniqueness
SigF35(pre, cx1, ev, res, post, cx2, pred) ==
  /\ pred \in {"PathsUnique", "IdxExact", "LookupExact", "PathIsAncestorNames", "ReportExact", "ReportIffUnresolvable", "FileTextExact", "EditsStayValid", "RefoExact"}
  /\ ev.op \in {"Copy", "Move"} /\ res.t = "ok"
  /\ ev.c \in 1..Len(pre.n) /\ pre.n[ev.c].k \in DOMAIN Schema /\ Schema[pre.n[ev.c].k].name = "SHORT-NAME"

\* F36: the source of a copy may be (or contain) an element of an identifiable kind that has no SHORT-NAME - a handle to a removed
\* element, whose content is gone, or an element that a lenient load left unnamed: the copy puts an unnamed element into the model
Unnamed(o, x) == /\ o.n[x].k \in DOMAIN Schema /\ Schema[o.n[x].k].named
                 /\ ~(Len(o.n[x].cont) > 0 /\ o.n[x].cont[1].t = "e" /\ o.n[o.n[x].cont[1].id].k \in DOMAIN Schema
                       /\ Schema[o.n[o.n[x].cont[1].id].k].name = "SHORT-NAME")
SigF36(pre, cx1, ev, res, post, cx2, pred) ==
  /\ pred \in {"EditsStayValid", "CopyStillValidates", "CopyFaithful", "CopyFindable"}
  /\ ev.op = "Copy" /\ res.t = "ok" /\ ev.c \in 1..Len(pre.n)
  /\ \E x \in P!PSeqToSet(P!ODfs(pre, ev.c)) : Unnamed(pre, x)

KFMatch(pre, cx1, ev, res, post, cx2, pred) ==
  {id \in {"F7", "F21", "F22", "F26", "F29", "F35", "F36"} :
     CASE id = "F7" -> SigF7(pre, cx1, ev, res, post, cx2, pred)
       [] id = "F21" -> SigF21(pre, cx1, ev, res, post, cx2, pred)
       [] id = "F22" -> SigF22(pre, cx1, ev, res, post, cx2, pred)
       [] id = "F26" -> SigF26(pre, cx1, ev, res, post, cx2, pred)
       [] id = "F29" -> SigF29(pre, cx1, ev, res, post, cx2, pred)
       [] id = "F35" -> SigF35(pre, cx1, ev, res, post, cx2, pred)
       [] id = "F36" -> SigF36(pre, cx1, ev, res, post, cx2, pred)}
=============================================================================
