------------------------------- MODULE Arxml -------------------------------
(* The multi-file element model of autosar-data: element tree, path index (identifiables),      *)
(* reverse reference map (reference_origins), files and file membership.                         *)
(* Functional style: every public operation is an operator  Op(s, args)  returning the set of   *)
(* allowed outcomes [st |-> s', res |-> r].  The caches are explicit fields maintained by the    *)
(* rules transcribed from the code, so "cache = derived value" is a real invariant.              *)
(* Deliberate deviations of the code from the intended design are switched by the constant KF.  *)
EXTENDS Integers, Sequences, FiniteSets, TLC, SequencesExt, FiniteSetsExt

CONSTANTS Schema,        \* kind key |-> kind record (extracted from the compiled specification tables)
          InvalidNames,  \* item names that the SHORT-NAME value spec rejects
          MaxSuffix,     \* bound for the search of a free name_<k>
          KF             \* set of known-finding ids whose (defective) code behaviour is modelled

VerRank(v) == CASE v = "V401" -> 1 [] v = "V430" -> 2 [] v = "V50" -> 3 [] OTHER -> 9
Latest == "V50"

\* ------------------------------------------------------------------ values and small helpers
SVal(x) == [k |-> "s", v |-> x]
EVal(x) == [k |-> "e", v |-> x]
UVal(x) == [k |-> "u", v |-> x]
PVal(x) == [k |-> "p", v |-> x]     \* text of a reference element: an AUTOSAR path (sequence of names)
CItem(val) == [t |-> "c", id |-> 0, v |-> val]
EItem(i)   == [t |-> "e", id |-> i, v |-> SVal("")]
Ok(s, v)   == [st |-> s, res |-> [t |-> "ok", v |-> v]]
Fail(s, e) == [st |-> s, res |-> [t |-> "err", v |-> e]]
PE(i) == [t |-> "e", v |-> i]     \* parent link: element
PM(m) == [t |-> "m", v |-> m]     \* parent link: model
PX    == [t |-> "x", v |-> 0]     \* parent link: none (deleted / never attached)

IsPrefixSeq(a, b) == Len(a) <= Len(b) /\ SubSeq(b, 1, Len(a)) = a
Drop(sq, k) == SubSeq(sq, k + 1, Len(sq))
InsAt(sq, pos0, x) == SubSeq(sq, 1, pos0) \o <<x>> \o SubSeq(sq, pos0 + 1, Len(sq))   \* pos0 is 0-based
DelAt(sq, i) == SubSeq(sq, 1, i - 1) \o SubSeq(sq, i + 1, Len(sq))                     \* i is 1-based
SeqToSet(sq) == {sq[i] : i \in 1..Len(sq)}
RECURSIVE SortInts(_)
SortInts(S) == IF S = {} THEN <<>> ELSE LET m == Min(S) IN <<m>> \o SortInts(S \ {m})
RECURSIVE InsSorted(_, _)
InsSorted(sq, x) == IF sq = <<>> THEN <<x>> ELSE IF x <= Head(sq) THEN <<x>> \o sq ELSE <<Head(sq)>> \o InsSorted(Tail(sq), x)
RECURSIVE RemOne(_, _)
RemOne(sq, x) == IF sq = <<>> THEN <<>> ELSE IF Head(sq) = x THEN Tail(sq) ELSE <<Head(sq)>> \o RemOne(Tail(sq), x)

\* ------------------------------------------------------------------ schema access
KName(k) == Schema[k].name
KMode(k) == Schema[k].mode
KNamed(k) == Schema[k].named
KNamedIn(k, v) == \E i \in 1..Len(Schema[k].namedmask) : Schema[k].namedmask[i] = v
KIsRef(k) == Schema[k].isref
KSplit(k) == Schema[k].splitany
KOrdered(k) == Schema[k].ordered
KChildren(k) == Schema[k].children
InMask(mask, v) == \E i \in 1..Len(mask) : mask[i] = v
\* find_sub_element(name, version): index (in the children listing) of the first child with that name allowed in v; 0 if none
ChildIx(k, name, v) ==
  LET C == KChildren(k)
      S == {i \in 1..Len(C) : C[i].name = name /\ InMask(C[i].mask, v)}
  IN IF S = {} THEN 0 ELSE Min(S)
\* find_sub_element(name, u32::MAX)
ChildIxAny(k, name) ==
  LET C == KChildren(k)
      S == {i \in 1..Len(C) : C[i].name = name}
  IN IF S = {} THEN 0 ELSE Min(S)
\* lexicographic comparison of index vectors: -1, 0, 1
RECURSIVE CmpIdx(_, _)
CmpIdx(a, b) ==
  IF a = <<>> /\ b = <<>> THEN 0
  ELSE IF a = <<>> THEN -1
  ELSE IF b = <<>> THEN 1
  ELSE IF Head(a) < Head(b) THEN -1
  ELSE IF Head(a) > Head(b) THEN 1
  ELSE CmpIdx(Tail(a), Tail(b))
AttrIx(k, an) ==
  LET A == Schema[k].attrs
      S == {i \in 1..Len(A) : A[i].name = an}
  IN IF S = {} THEN 0 ELSE Min(S)

\* ------------------------------------------------------------------ state access
\*  s.n     : sequence of node records [k, par, cont, at, cmt, fm]
\*  s.root  : per model the root node;  s.files : per model the sequence of file ids
\*  s.f     : per file id [name, ver, m]     (files are never forgotten, only unlisted)
\*  s.idx   : per model a set of <<path, node>>   (the `identifiables` map: at most one entry per path)
\*  s.refo  : per model a set of <<path, sorted sequence of nodes>>  (the `reference_origins` map)
NodeIds(s) == 1..Len(s.n)
Kind(s, i) == s.n[i].k
NameOf(s, i) == KName(s.n[i].k)
Cont(s, i) == s.n[i].cont
SubIds(s, i) == LET c == s.n[i].cont IN [j \in 1..Len(SelectSeq(c, LAMBDA x : x.t = "e")) |-> SelectSeq(c, LAMBDA x : x.t = "e")[j].id]
SetF(s, i, fld, val) == [s EXCEPT !.n[i] = [s.n[i] EXCEPT ![fld] = val]]
NewNode(k, par) == [k |-> k, par |-> par, cont |-> <<>>, at |-> <<>>, cmt |-> <<>>, fm |-> {}]

\* character_data(): exactly one content item, which is character data, in a Characters/Mixed element
HasCData(s, i) == /\ Len(Cont(s, i)) = 1 /\ Cont(s, i)[1].t = "c" /\ KMode(Kind(s, i)) \in {"Characters", "Mixed"}
CData(s, i) == Cont(s, i)[1].v
HasStrData(s, i) == HasCData(s, i) /\ CData(s, i).k = "s"
HasRefData(s, i) == HasCData(s, i) /\ CData(s, i).k = "p"

\* is_identifiable(): type is named (in some version) and the first content item is a SHORT-NAME element
IsIdent(s, i) == /\ KNamed(Kind(s, i)) /\ Len(Cont(s, i)) > 0 /\ Cont(s, i)[1].t = "e"
                 /\ NameOf(s, Cont(s, i)[1].id) = "SHORT-NAME"
\* item_name(): <<name>> or <<>>
ItemName(s, i) == IF IsIdent(s, i) /\ HasStrData(s, Cont(s, i)[1].id) THEN <<CData(s, Cont(s, i)[1].id).v>> ELSE <<>>

\* path_unchecked(): names of self and all ancestors that have one; error if the chain ends in a cleared link
RECURSIVE PathUnchecked(_, _)
PathUnchecked(s, i) ==
  LET pr == s.n[i].par IN
  IF pr.t = "x" THEN [t |-> "err", v |-> "ItemDeleted"]
  ELSE IF pr.t = "m" THEN [t |-> "ok", v |-> ItemName(s, i)]
  ELSE LET up == PathUnchecked(s, pr.v) IN
       IF up.t = "err" THEN up ELSE [t |-> "ok", v |-> up.v \o ItemName(s, i)]
ApiPath(s, i) == IF IsIdent(s, i) THEN PathUnchecked(s, i) ELSE [t |-> "err", v |-> "ElementNotIdentifiable"]

RECURSIVE ApiModel(_, _)
ApiModel(s, i) ==
  LET pr == s.n[i].par IN
  IF pr.t = "x" THEN [t |-> "err", v |-> "ItemDeleted"]
  ELSE IF pr.t = "m" THEN [t |-> "ok", v |-> pr.v]
  ELSE ApiModel(s, pr.v)

\* file_membership(): nearest non-empty local set upwards
RECURSIVE ApiFmFrom(_, _, _)
ApiFmFrom(s, i, self) ==
  IF s.n[i].fm # {} THEN [t |-> "ok", local |-> (i = self), set |-> s.n[i].fm, v |-> ""]
  ELSE LET pr == s.n[i].par IN
       IF pr.t = "x" THEN [t |-> "err", local |-> FALSE, set |-> {}, v |-> "ItemDeleted"]
       ELSE IF pr.t = "m" THEN [t |-> "err", local |-> FALSE, set |-> {}, v |-> "NoFilesInModel"]
       ELSE ApiFmFrom(s, pr.v, self)
ApiFm(s, i) == ApiFmFrom(s, i, i)
MinVerOf(s, F) == IF F = {} THEN Latest
                  ELSE LET r == Min({VerRank(s.f[f].ver) : f \in F}) IN CHOOSE v \in {s.f[f].ver : f \in F} : VerRank(v) = r
MinVersion(s, i) == LET m == ApiFm(s, i) IN
                    IF m.t = "err" THEN [t |-> "err", v |-> m.v] ELSE [t |-> "ok", v |-> MinVerOf(s, m.set)]

\* is `a` a proper ancestor of `i` (through parent links)
RECURSIVE IsAncestor(_, _, _)
IsAncestor(s, a, i) == LET pr == s.n[i].par IN
                       IF pr.t # "e" THEN FALSE ELSE IF pr.v = a THEN TRUE ELSE IsAncestor(s, a, pr.v)

\* pre-order DFS of the subtree below (and including) i, through content lists
RECURSIVE Dfs(_, _)
RECURSIVE DfsList(_, _)
Dfs(s, i) == <<i>> \o DfsList(s, SubIds(s, i))
DfsList(s, ids) == IF ids = <<>> THEN <<>> ELSE Dfs(s, Head(ids)) \o DfsList(s, Tail(ids))

\* ------------------------------------------------------------------ caches
Lookup(s, m, p) == LET S == {e \in s.idx[m] : e[1] = p} IN IF S = {} THEN 0 ELSE (CHOOSE e \in S : TRUE)[2]
AddIdx(s, m, p, i) == [s EXCEPT !.idx[m] = {e \in @ : e[1] # p} \cup {<<p, i>>}]
RemoveIdx(s, m, p) == [s EXCEPT !.idx[m] = {e \in @ : e[1] # p}]
\* fix_identifiables: re-key every entry whose path has `old` as a component prefix (later insertions overwrite).
\* The implementation iterates the keys in index order; entries are re-keyed one at a time, and an entry that is
\* re-keyed onto an existing key replaces it.  With distinct suffixes the order does not matter except when the
\* new key collides with a key that is itself still to be moved; that needs old to be a prefix of new (rename
\* /a -> /a/..., impossible) so a set formulation is exact.
FixIdx(s, m, old, new) ==
  LET moved == {e \in s.idx[m] : IsPrefixSeq(old, e[1])}
      keep  == s.idx[m] \ moved
      mv    == {<<new \o Drop(e[1], Len(old)), e[2]>> : e \in moved}
  IN [s EXCEPT !.idx[m] = {e \in keep : ~\E x \in mv : x[1] = e[1]} \cup mv]

RefList(s, m, p) == LET S == {e \in s.refo[m] : e[1] = p} IN IF S = {} THEN <<>> ELSE (CHOOSE e \in S : TRUE)[2]
HasRefKey(s, m, p) == \E e \in s.refo[m] : e[1] = p
PutRefList(s, m, p, l) == [s EXCEPT !.refo[m] = {e \in @ : e[1] # p} \cup {<<p, l>>}]
DelRefKey(s, m, p) == [s EXCEPT !.refo[m] = {e \in @ : e[1] # p}]
AddRefo(s, m, p, i) == PutRefList(s, m, p, InsSorted(RefList(s, m, p), i))
\* remove_reference_origin: drop one occurrence; drop the key when the list is (or becomes) empty
RemoveRefo(s, m, p, i) ==
  IF ~HasRefKey(s, m, p) THEN s
  ELSE LET l == RemOne(RefList(s, m, p), i) IN IF l = <<>> THEN DelRefKey(s, m, p) ELSE PutRefList(s, m, p, l)
\* fix_reference_origins(old, new, origin)
FixRefo(s, m, old, new, i) ==
  IF old = new THEN s
  ELSE LET s1 == IF HasRefKey(s, m, old) /\ (\E j \in 1..Len(RefList(s, m, old)) : RefList(s, m, old)[j] = i)
                 THEN LET l == RemOne(RefList(s, m, old), i) IN IF l = <<>> THEN DelRefKey(s, m, old) ELSE PutRefList(s, m, old, l)
                 ELSE s
       IN AddRefo(s1, m, new, i)


\* ------------------------------------------------------------------ insertion range (calc_element_insert_range)
\* result: [t |-> "ok", lo, hi] or [t |-> "err", v]
RangeErr(e) == [t |-> "err", v |-> e, lo |-> 0, hi |-> 0]
RECURSIVE RangeScan(_, _, _, _, _, _, _, _)
\* scan content items j..Len; ci = listing index of the new child in kind pk; lo/hi running values
RangeScan(s, p, pk, ci, v, j, lo, hi) ==
  LET c == Cont(s, p) IN
  IF j > Len(c) THEN [t |-> "ok", v |-> "", lo |-> lo, hi |-> hi]
  ELSE IF c[j].t = "c" THEN RangeScan(s, p, pk, ci, v, j + 1, lo, j)
  ELSE
    \* an existing child unknown in version v (lenient load) is located in any version; a completely unknown one does not constrain
    LET ei0 == ChildIx(pk, NameOf(s, c[j].id), v)
        ei == IF ei0 # 0 THEN ei0 ELSE ChildIxAny(pk, NameOf(s, c[j].id)) IN
    IF ei = 0 THEN RangeScan(s, p, pk, ci, v, j + 1, lo, j)
    ELSE
      LET gm == Schema[pk].pair[ci][ei]
          cmp == CmpIdx(KChildren(pk)[ci].idx, KChildren(pk)[ei].idx)
          mult == KChildren(pk)[ci].mult
      IN
      IF gm = "Sequence" THEN
           IF cmp < 0 THEN [t |-> "ok", v |-> "", lo |-> lo, hi |-> hi]
           ELSE IF cmp = 0 THEN
                  IF mult # "Any" THEN RangeErr("ElementInsertionConflict")
                  ELSE RangeScan(s, p, pk, ci, v, j + 1, lo, j)
           ELSE RangeScan(s, p, pk, ci, v, j + 1, j, j)
      ELSE IF gm = "Choice" THEN
           IF cmp = 0 THEN
                  IF mult # "Any" THEN RangeErr("ElementInsertionConflict")
                  ELSE RangeScan(s, p, pk, ci, v, j + 1, lo, j)
           ELSE RangeErr("ElementInsertionConflict")
      ELSE RangeScan(s, p, pk, ci, v, j + 1, lo, j)

CalcRange(s, p, name, v) ==
  LET pk == Kind(s, p) IN
  IF KMode(pk) = "Characters" THEN RangeErr("IncorrectContentType")
  ELSE LET ci == ChildIx(pk, name, v) IN
       IF ci = 0 THEN RangeErr("InvalidSubElement")
       ELSE IF KMode(pk) \in {"Bag", "Mixed"} THEN [t |-> "ok", v |-> "", lo |-> 0, hi |-> Len(Cont(s, p))]
       ELSE RangeScan(s, p, pk, ci, v, 1, 0, 0)

\* position to use: pos = -1 means "no position given" (end of the range)
PosCheck(r, pos) == pos = -1 \/ (r.lo <= pos /\ pos <= r.hi)
PosUse(r, pos) == IF pos = -1 THEN r.hi ELSE pos

\* "is the handle part of a live model" (intended precondition of every place-dependent request)
Attached(s, i) == ApiModel(s, i).t = "ok"

\* ------------------------------------------------------------------ create_sub_element(_at)
CreateSub(s, p, name, pos) ==
  LET mv == MinVersion(s, p) IN
  IF mv.t = "err" THEN {Fail(s, mv.v)}
  ELSE LET r == CalcRange(s, p, name, mv.v) IN
  IF r.t = "err" THEN {Fail(s, r.v)}
  ELSE IF ~PosCheck(r, pos) THEN {Fail(s, "InvalidPosition")}
  ELSE LET ck == KChildren(Kind(s, p))[ChildIx(Kind(s, p), name, mv.v)].kind IN
  IF KNamedIn(ck, mv.v) THEN {Fail(s, "ItemNameRequired")}
  ELSE LET id == Len(s.n) + 1
           s1 == [s EXCEPT !.n = Append(@, NewNode(ck, PE(p)))]
           s2 == SetF(s1, p, "cont", InsAt(Cont(s, p), PosUse(r, pos), EItem(id)))
       IN {Ok(s2, id)}

\* ------------------------------------------------------------------ create_named_sub_element(_at)
CreateNamed(s, p, name, iname, pos) ==
  LET md == ApiModel(s, p) mv == MinVersion(s, p) IN
  IF md.t = "err" THEN {Fail(s, md.v)}
  ELSE IF mv.t = "err" THEN {Fail(s, mv.v)}
  ELSE LET r == CalcRange(s, p, name, mv.v) IN
  IF r.t = "err" THEN {Fail(s, r.v)}
  ELSE IF ~PosCheck(r, pos) THEN {Fail(s, "InvalidPosition")}
  ELSE IF iname = "" THEN {Fail(s, "ItemNameRequired")}
  ELSE LET pk == Kind(s, p)
           ck == KChildren(pk)[ChildIx(pk, name, mv.v)].kind IN
  IF ~KNamedIn(ck, mv.v) THEN {Fail(s, "ElementNotIdentifiable")}
  ELSE IF iname \in InvalidNames THEN {Fail(s, "IncorrectContentType")}
  ELSE LET pp == PathUnchecked(s, p) IN
  IF pp.t = "err" THEN {Fail(s, pp.v)}
  ELSE LET path == pp.v \o <<iname>> IN
  IF Lookup(s, md.v, path) # 0 THEN {Fail(s, "DuplicateItemName")}
  ELSE LET id == Len(s.n) + 1
           snk == KChildren(ck)[ChildIx(ck, "SHORT-NAME", mv.v)].kind
           e  == [NewNode(ck, PE(p)) EXCEPT !.cont = <<EItem(id + 1)>>]
           sn == [NewNode(snk, PE(id)) EXCEPT !.cont = <<CItem(SVal(iname))>>]
           s1 == [s EXCEPT !.n = @ \o <<e, sn>>]
           s2 == SetF(s1, p, "cont", InsAt(Cont(s, p), PosUse(r, pos), EItem(id)))
       IN {Ok(AddIdx(s2, md.v, path, id), id)}


\* ------------------------------------------------------------------ remove_sub_element / remove_internal
RECURSIVE RemoveInternal(_, _, _, _)
RECURSIVE RemoveInternalList(_, _, _, _)
\* m = model whose caches are updated; path = path of the nearest identifiable ancestors (sequence of names)
RemoveInternal(s, m, e, path) ==
  LET nm == ItemName(s, e)
      p2 == IF IsIdent(s, e) /\ nm # <<>> THEN path \o nm ELSE path
      s1 == IF IsIdent(s, e) /\ nm # <<>> THEN RemoveIdx(s, m, p2) ELSE s
      s2 == IF KIsRef(Kind(s, e)) /\ HasRefData(s, e) THEN RemoveRefo(s1, m, CData(s, e).v, e) ELSE s1
      s3 == RemoveInternalList(s2, m, SubIds(s, e), p2)
  IN [s3 EXCEPT !.n[e] = [@ EXCEPT !.cont = <<>>, !.par = PX, !.fm = {}]]
RemoveInternalList(s, m, ids, path) ==
  IF ids = <<>> THEN s ELSE RemoveInternalList(RemoveInternal(s, m, Head(ids), path), m, Tail(ids), path)

PosOfChild(s, p, c) == LET S == {j \in 1..Len(Cont(s, p)) : Cont(s, p)[j].t = "e" /\ Cont(s, p)[j].id = c}
                       IN IF S = {} THEN 0 ELSE Min(S)

RemoveSub(s, p, c) ==
  LET md == ApiModel(s, p) IN
  IF p = c THEN {Fail(s, "ElementNotFound")}       \* (blocked forever before the fix recorded in known_findings.json)
  ELSE IF md.t = "err" THEN {Fail(s, md.v)}
  ELSE LET pp == PathUnchecked(s, p) IN
  IF pp.t = "err" THEN {Fail(s, pp.v)}
  ELSE LET pos == PosOfChild(s, p, c) IN
  IF pos = 0 THEN {Fail(s, "ElementNotFound")}
  ELSE IF KNamed(Kind(s, p)) /\ NameOf(s, c) = "SHORT-NAME" THEN {Fail(s, "ShortNameRemovalForbidden")}
  ELSE LET s1 == RemoveInternal(s, md.v, c, pp.v)
       IN {Ok(SetF(s1, p, "cont", DelAt(Cont(s1, p), pos)), 0)}

RemoveKind(s, p, name) ==
  LET S == {j \in 1..Len(Cont(s, p)) : Cont(s, p)[j].t = "e" /\ NameOf(s, Cont(s, p)[j].id) = name} IN
  IF S = {} THEN {Fail(s, "ElementNotFound")} ELSE RemoveSub(s, p, Cont(s, p)[Min(S)].id)

\* ------------------------------------------------------------------ set_item_name
\* rewrite referrers: every key of the reverse map with component prefix old is re-keyed; each listed referrer gets the new text.
\* "F5" in KF: the re-keyed list REPLACES a list already present under the new key (insert); intended: lists are merged.
RECURSIVE SetTexts(_, _, _)
\* (id 0 in a referrer list: an entry whose element no longer exists, see Load)
SetTexts(s, ids, val) == IF ids = <<>> THEN s
                         ELSE IF Head(ids) = 0 THEN SetTexts(s, Tail(ids), val)
                         ELSE SetTexts([s EXCEPT !.n[Head(ids)].cont = <<CItem(val)>> \o Drop(@, 1)], Tail(ids), val)
RECURSIVE MergeSorted(_, _)
MergeSorted(a, b) == IF b = <<>> THEN a ELSE MergeSorted(InsSorted(a, Head(b)), Tail(b))
RECURSIVE RekeyRefs(_, _, _, _, _)
\* keys: a sequence of the affected old keys (processed one after the other, like the loop in the code)
RekeyRefs(s, m, keys, old, new) ==
  IF keys = <<>> THEN s
  ELSE LET k == Head(keys) IN
       IF ~HasRefKey(s, m, k) THEN RekeyRefs(s, m, Tail(keys), old, new)
       ELSE LET l == RefList(s, m, k)
                nk == new \o Drop(k, Len(old))
                s1 == SetTexts(DelRefKey(s, m, k), l, PVal(nk))
                l2 == IF "F5" \in KF THEN l ELSE MergeSorted(RefList(s1, m, nk), l)
            IN RekeyRefs(PutRefList(s1, m, nk, l2), m, Tail(keys), old, new)
\* the affected keys in some order: the order matters only when a new key equals a still-unprocessed old key, which
\* needs old to be a proper prefix of new (impossible for a rename or move) -- any order gives the same result.
RECURSIVE SetToSeqAny(_)
SetToSeqAny(S) == IF S = {} THEN <<>> ELSE LET x == CHOOSE y \in S : TRUE IN <<x>> \o SetToSeqAny(S \ {x})

Rename(s, e, new) ==
  IF new = "" THEN {Fail(s, "ItemNameRequired")}
  ELSE LET md == ApiModel(s, e) mv == MinVersion(s, e) IN
  IF md.t = "err" THEN {Fail(s, md.v)}
  ELSE IF mv.t = "err" THEN {Fail(s, mv.v)}
  ELSE IF ItemName(s, e) = <<>> THEN {Fail(s, "ElementNotIdentifiable")}
  ELSE IF ItemName(s, e)[1] = new THEN {Ok(s, 0)}
  ELSE LET op == ApiPath(s, e) IN
  IF op.t = "err" THEN {Fail(s, op.v)}
  ELSE LET old == op.v
           np == SubSeq(old, 1, Len(old) - 1) \o <<new>> IN
  IF Lookup(s, md.v, np) # 0 THEN {Fail(s, "DuplicateItemName")}
  ELSE IF new \in InvalidNames THEN {Fail(s, "IncorrectContentType")}
  ELSE LET sn == Cont(s, e)[1].id
           s1 == SetF(s, sn, "cont", <<CItem(SVal(new))>>)
           s2 == FixIdx(s1, md.v, old, np)
           keys == SetToSeqAny({k[1] : k \in {x \in s2.refo[md.v] : IsPrefixSeq(old, x[1])}})
       IN {Ok(RekeyRefs(s2, md.v, keys, old, np), 0)}

\* ------------------------------------------------------------------ character data
\* ValueOK is supplied per scenario through the value universe: a value record carries the kinds it is valid for
ValueFits(k, v, val) ==
  LET sp == Schema[k].cdata IN
  IF KIsRef(k) THEN val.k = "p" /\ \A j \in 1..Len(val.v) : val.v[j] \notin InvalidNames
  ELSE CASE sp.k = "Enum" -> val.k = "e" /\ \E i \in 1..Len(sp.items) : sp.items[i].i = val.v /\ InMask(sp.items[i].mask, v)
         [] sp.k = "UInt" -> val.k = "u"
         [] sp.k = "Float" -> val.k = "f"
         [] sp.k = "String" -> val.k = "s"
         [] sp.k = "Pattern" -> val.k = "s" /\ (KName(k) = "SHORT-NAME" => val.v \notin InvalidNames)
         [] OTHER -> FALSE
HasSpec(k) == Schema[k].cdata.k # "None"

SetText(s, e, val) ==
  LET k == Kind(s, e) IN
  IF ~(KMode(k) \in {"Characters", "Mixed"}) \/ ~HasSpec(k) THEN {Fail(s, "IncorrectContentType")}
  ELSE LET md == ApiModel(s, e) mv == MinVersion(s, e) IN
  IF md.t = "err" THEN {Fail(s, md.v)}
  ELSE IF mv.t = "err" THEN {Fail(s, mv.v)}
  ELSE IF ~ValueFits(k, mv.v, val) THEN {Fail(s, "IncorrectContentType")}
  \* "F19" in KF: a direct edit of a SHORT-NAME is not tested for uniqueness (intended: refused like set_item_name)
  ELSE IF "F19" \notin KF /\ KName(k) = "SHORT-NAME" /\ HasCData(s, e) /\ s.n[e].par.t = "e" /\ ApiPath(s, s.n[e].par.v).t = "ok"
          /\ val.v # CData(s, e).v
          /\ Lookup(s, md.v, SubSeq(ApiPath(s, s.n[e].par.v).v, 1, Len(ApiPath(s, s.n[e].par.v).v) - 1) \o <<val.v>>) # 0
       THEN {Fail(s, "DuplicateItemName")}
  ELSE LET isSN == KName(k) = "SHORT-NAME" /\ HasCData(s, e) /\ s.n[e].par.t = "e"
           prev == IF isSN THEN ApiPath(s, s.n[e].par.v) ELSE [t |-> "ok", v |-> <<>>] IN
  IF prev.t = "err" THEN {Fail(s, prev.v)}
  ELSE LET oldref == IF KIsRef(k) /\ HasRefData(s, e) THEN <<CData(s, e).v>> ELSE <<>>
           \* on an element with mixed content the whole content is replaced: its sub elements are removed from the model
           \* (index, referrer lists, handles) like remove_sub_element does it
           pe == PathUnchecked(s, e)
           s0 == IF SubIds(s, e) # <<>> /\ pe.t = "ok" THEN RemoveInternalList(s, md.v, SubIds(s, e), pe.v) ELSE s
           s1 == SetF(s0, e, "cont", <<CItem(val)>>)
           s2 == IF isSN THEN
                   LET np == ApiPath(s1, s.n[e].par.v) IN
                   IF np.t = "ok" THEN FixIdx(s1, md.v, prev.v, np.v) ELSE s1
                 ELSE s1
           s3 == IF KIsRef(k) /\ val.k = "p" THEN
                   IF oldref # <<>> THEN FixRefo(s2, md.v, oldref[1], val.v, e) ELSE AddRefo(s2, md.v, val.v, e)
                 ELSE s2
       IN {Ok(s3, 0)}

RemoveText(s, e) ==
  LET k == Kind(s, e) IN
  IF KMode(k) # "Characters" THEN {Fail(s, "IncorrectContentType")}
  ELSE IF KName(k) = "SHORT-NAME" THEN {Fail(s, "ShortNameRemovalForbidden")}
  ELSE IF ~HasCData(s, e) THEN {Ok(s, 0)}
  ELSE IF KIsRef(k) THEN
         LET md == ApiModel(s, e) IN
         IF md.t = "err" THEN {Fail(s, md.v)}
         ELSE LET s1 == IF CData(s, e).k = "p" THEN RemoveRefo(s, md.v, CData(s, e).v, e) ELSE s
              IN {Ok(SetF(s1, e, "cont", <<>>), 0)}
  ELSE {Ok(SetF(s, e, "cont", <<>>), 0)}

\* ------------------------------------------------------------------ character content items of mixed content
\* (both work on the handle alone: no model, no version; positions count all content items)
InsertText(s, e, pos, txt) ==
  IF KMode(Kind(s, e)) # "Mixed" THEN {Fail(s, "IncorrectContentType")}
  ELSE IF pos < 0 \/ pos > Len(Cont(s, e)) THEN {Fail(s, "InvalidPosition")}
  ELSE {Ok(SetF(s, e, "cont", InsAt(Cont(s, e), pos, CItem(SVal(txt)))), 0)}
RemoveTextItem(s, e, pos) ==
  IF KMode(Kind(s, e)) # "Mixed" THEN {Fail(s, "IncorrectContentType")}
  ELSE IF pos < 0 \/ pos >= Len(Cont(s, e)) \/ Cont(s, e)[pos + 1].t # "c" THEN {Fail(s, "InvalidPosition")}
  ELSE {Ok(SetF(s, e, "cont", DelAt(Cont(s, e), pos + 1)), 0)}

\* ------------------------------------------------------------------ attributes, comment
SetAttrRaw(s, e, an, val) ==
  LET A == s.n[e].at
      S == {i \in 1..Len(A) : A[i].n = an}
  IN IF S = {} THEN SetF(s, e, "at", Append(A, [n |-> an, v |-> val]))
     ELSE SetF(s, e, "at", [A EXCEPT ![Min(S)] = [n |-> an, v |-> val]])
AttrValueFits(k, an, v, val) ==
  LET sp == Schema[k].attrs[AttrIx(k, an)].spec IN
  CASE sp.k = "Enum" -> val.k = "e" /\ \E i \in 1..Len(sp.items) : sp.items[i].i = val.v /\ InMask(sp.items[i].mask, v)
    [] sp.k = "UInt" -> val.k = "u"
    [] sp.k = "Float" -> val.k = "f"
    [] sp.k \in {"String", "Pattern"} -> val.k = "s"
    [] OTHER -> FALSE
SetAttr(s, e, an, val) ==
  LET mv == MinVersion(s, e) IN
  IF mv.t = "err" THEN {Fail(s, mv.v)}
  ELSE IF AttrIx(Kind(s, e), an) = 0 THEN {Fail(s, "InvalidAttribute")}
  ELSE IF ~InMask(Schema[Kind(s, e)].attrs[AttrIx(Kind(s, e), an)].mask, mv.v) THEN {Fail(s, "InvalidAttribute")}
  ELSE IF ~AttrValueFits(Kind(s, e), an, mv.v, val) THEN {Fail(s, "InvalidAttributeValue")}
  ELSE {Ok(SetAttrRaw(s, e, an, val), 0)}
RemoveAttr(s, e, an) ==
  LET A == s.n[e].at
      S == {i \in 1..Len(A) : A[i].n = an} IN
  IF S = {} \/ AttrIx(Kind(s, e), an) = 0 \/ Schema[Kind(s, e)].attrs[AttrIx(Kind(s, e), an)].req THEN {Ok(s, 0)}
  ELSE {Ok(SetF(s, e, "at", DelAt(A, Min(S))), 1)}
\* set_comment: "--" is replaced by "__"; the empty string stands for None in the action record
CommentFix(c) == IF c = "c--d" THEN "c__d" ELSE c
SetComment(s, e, c) == {Ok(SetF(s, e, "cmt", IF c = "" THEN <<>> ELSE <<CommentFix(c)>>), 0)}


\* ------------------------------------------------------------------ set_reference_target
SetRefTarget(s, r, tg) ==
  IF ~KIsRef(Kind(s, r)) THEN {Fail(s, "NotReferenceElement")}
  ELSE LET tp == ApiPath(s, tg) IN
  IF tp.t = "err" THEN {Fail(s, tp.v)}
  ELSE LET d == Schema[Kind(s, r)].destfor[Kind(s, tg)] IN
  IF d.v = "" THEN {Fail(s, "InvalidReference")}
  ELSE LET md == ApiModel(s, r) mv == MinVersion(s, r) IN
  IF md.t = "err" THEN {Fail(s, md.v)}
  ELSE IF mv.t = "err" THEN {Fail(s, mv.v)}
  ELSE IF ~InMask(d.mask, mv.v) THEN {Fail(s, "InvalidReference")}
  ELSE LET s1 == SetAttrRaw(s, r, "DEST", EVal(d.v))
           s2 == IF HasRefData(s, r) THEN FixRefo(s1, md.v, CData(s, r).v, tp.v, r)
                 ELSE AddRefo(s1, md.v, tp.v, r)
       IN {Ok(SetF(s2, r, "cont", <<CItem(PVal(tp.v))>>), 0)}

\* ------------------------------------------------------------------ deep copy
AttrCompat(k, a, v) ==      \* attribute record a = [n, v] of a node of kind k in version v: "keep", "drop", "err"
  LET ix == AttrIx(k, a.n) IN
  IF ix = 0 THEN "err"
  ELSE LET sp == Schema[k].attrs[ix]
           valok == IF sp.spec.k = "Enum" /\ a.v.k = "e"
                    THEN \E i \in 1..Len(sp.spec.items) : sp.spec.items[i].i = a.v.v /\ InMask(sp.spec.items[i].mask, v)
                    ELSE TRUE
       IN IF InMask(sp.mask, v) /\ valok THEN "keep" ELSE IF sp.req THEN "err" ELSE "drop"

RECURSIVE DeepCopy(_, _, _)
RECURSIVE DeepCopyItems(_, _, _, _, _, _)
\* returns [ok, s, id]; a failed copy leaves s untouched (its nodes were never visible to anybody)
DeepCopy(s, src, v) ==
  LET k == Kind(s, src)
      A == s.n[src].at
      verdicts == [i \in 1..Len(A) |-> AttrCompat(k, A[i], v)]
      \* character data: an enumeration value that does not exist in version v cannot be copied
      cdbad == \E j \in 1..Len(s.n[src].cont) :
                  LET c == s.n[src].cont[j] IN
                  /\ c.t = "c" /\ HasSpec(k) /\ Schema[k].cdata.k = "Enum"
                  /\ ~(c.v.k = "e" /\ \E q \in 1..Len(Schema[k].cdata.items) :
                                         Schema[k].cdata.items[q].i = c.v.v /\ InMask(Schema[k].cdata.items[q].mask, v))
  IN IF cdbad \/ \E i \in 1..Len(A) : verdicts[i] = "err" THEN [ok |-> FALSE, s |-> s, id |-> 0]
     ELSE LET id == Len(s.n) + 1
              keepIx == {i \in 1..Len(A) : verdicts[i] = "keep"}
              at2 == [j \in 1..Cardinality(keepIx) |-> A[SortInts(keepIx)[j]]]
              node == [NewNode(k, PX) EXCEPT !.at = at2, !.cmt = s.n[src].cmt]
              s1 == [s EXCEPT !.n = Append(@, node)]
          IN [ok |-> TRUE, s |-> DeepCopyItems(s1, src, id, v, 1, <<>>), id |-> id]
\* copy content items j.. of src into the new node id; acc = content built so far
DeepCopyItems(s, src, id, v, j, acc) ==
  LET c == s.n[src].cont IN
  IF j > Len(c) THEN SetF(s, id, "cont", acc)
  ELSE IF c[j].t = "c" THEN DeepCopyItems(s, src, id, v, j + 1, Append(acc, c[j]))
  ELSE IF ChildIx(Kind(s, src), NameOf(s, c[j].id), v) = 0 THEN DeepCopyItems(s, src, id, v, j + 1, acc)
  ELSE LET rc == DeepCopy(s, c[j].id, v) IN
       IF ~rc.ok THEN DeepCopyItems(s, src, id, v, j + 1, acc)
       ELSE DeepCopyItems(SetF(rc.s, rc.id, "par", PE(id)), src, id, v, j + 1, Append(acc, EItem(rc.id)))

\* make_unique_item_name: [ok, s, name]
SuffixName(orig, k) == IF k = 0 THEN orig ELSE orig \o "_" \o ToString(k)
MakeUnique(s, m, e, ppath) ==
  LET nm == ItemName(s, e) IN
  IF nm = <<>> THEN [ok |-> FALSE, s |-> s, name |-> ""]
  ELSE LET free == {k \in 0..MaxSuffix : Lookup(s, m, ppath \o <<SuffixName(nm[1], k)>>) = 0}
           k == Min(free \cup {MaxSuffix + 1})
           name == SuffixName(nm[1], k)
       IN [ok |-> TRUE, name |-> name,
           s |-> IF k = 0 THEN s ELSE SetF(s, Cont(s, e)[1].id, "cont", <<CItem(SVal(name))>>)]

\* registration walk over a freshly copied subtree
RECURSIVE RegCopy(_, _, _, _)
RECURSIVE RegCopyList(_, _, _, _)
RegCopy(s, m, e, path) ==
  LET p2 == IF IsIdent(s, e) THEN path \o ItemName(s, e) ELSE path
      s1 == IF IsIdent(s, e) THEN AddIdx(s, m, p2, e) ELSE s
      s2 == IF KIsRef(Kind(s, e)) /\ HasRefData(s, e) THEN AddRefo(s1, m, CData(s, e).v, e) ELSE s1
  IN RegCopyList(s2, m, SubIds(s, e), p2)
RegCopyList(s, m, ids, path) == IF ids = <<>> THEN s ELSE RegCopyList(RegCopy(s, m, Head(ids), path), m, Tail(ids), path)

CopySub(s, p, src, pos) ==
  IF p = src THEN {Fail(s, "InvalidSubElement")}
  ELSE LET md == ApiModel(s, p) mv == MinVersion(s, p) IN
  IF md.t = "err" THEN {Fail(s, md.v)}
  ELSE IF mv.t = "err" THEN {Fail(s, mv.v)}
  ELSE LET r == CalcRange(s, p, NameOf(s, src), mv.v) IN
  IF r.t = "err" THEN {Fail(s, r.v)}
  ELSE IF ~PosCheck(r, pos) THEN {Fail(s, "InvalidPosition")}
  ELSE IF IsAncestor(s, src, p) THEN {Fail(s, "ForbiddenCopyOfParent")}
  ELSE LET dc == DeepCopy(s, src, mv.v) IN
  IF ~dc.ok THEN {Fail(s, "VersionIncompatibleData")}
  ELSE LET pp == PathUnchecked(s, p) IN
  IF pp.t = "err" THEN {Fail(s, pp.v)}
  ELSE LET s1 == SetF(dc.s, dc.id, "par", PE(p))
           mu == IF IsIdent(s1, dc.id) THEN MakeUnique(s1, md.v, dc.id, pp.v) ELSE [ok |-> TRUE, s |-> s1, name |-> ""] IN
  IF ~mu.ok THEN {Fail(s, "ElementNotIdentifiable")}
  ELSE LET s2 == RegCopy(mu.s, md.v, dc.id, pp.v)
       IN {Ok(SetF(s2, p, "cont", InsAt(Cont(s2, p), PosUse(r, pos), EItem(dc.id))), dc.id)}


\* ------------------------------------------------------------------ move_element_here(_at)
\* paths (tree walk) of all nodes below-and-including src whose TYPE is named and whose path() succeeds
OrigPaths(s, src) ==
  LET D == Dfs(s, src) IN
  {<<ApiPath(s, D[j]).v, D[j]>> : j \in {x \in 1..Len(D) : KNamed(Kind(s, D[x])) /\ ApiPath(s, D[x]).t = "ok"}}

MovePosition(s, p, src, pos) ==
  IF pos >= Len(Cont(s, p)) THEN {Fail(s, "InvalidPosition")}
  ELSE LET cur == PosOfChild(s, p, src)
           c1 == DelAt(Cont(s, p), cur)
       IN {Ok(SetF(s, p, "cont", InsAt(c1, pos, EItem(src))), src)}

RECURSIVE MoveRefs(_, _, _, _, _)
\* for each original path (sequence `ops`) re-key its referrer list to dest \o suffix, rewriting the referrers' text
MoveRefs(s, m, ops, srcpfx, dest) ==
  IF ops = <<>> THEN s
  ELSE LET k == Head(ops) IN
       IF ~IsPrefixSeq(srcpfx, k) \/ ~HasRefKey(s, m, k) THEN MoveRefs(s, m, Tail(ops), srcpfx, dest)
       ELSE LET l == RefList(s, m, k)
                nk == dest \o Drop(k, Len(srcpfx))
                s1 == SetTexts(DelRefKey(s, m, k), l, PVal(nk))
                l2 == IF "F5" \in KF THEN l ELSE MergeSorted(RefList(s1, m, nk), l)
            IN MoveRefs(PutRefList(s1, m, nk, l2), m, Tail(ops), srcpfx, dest)
RECURSIVE FixIdxEach(_, _, _, _, _)
FixIdxEach(s, m, ops, srcpfx, dest) ==
  IF ops = <<>> THEN s
  ELSE LET k == Head(ops) IN
       IF ~IsPrefixSeq(srcpfx, k) THEN FixIdxEach(s, m, Tail(ops), srcpfx, dest)
       ELSE FixIdxEach(FixIdx(s, m, k, dest \o Drop(k, Len(srcpfx))), m, Tail(ops), srcpfx, dest)

RECURSIVE ClearFm(_, _)
ClearFm(s, ids) == IF ids = <<>> THEN s ELSE ClearFm(SetF(s, Head(ids), "fm", {}), Tail(ids))
MoveLocal(s, m, p, src, pos0, v) ==
  IF IsAncestor(s, src, p) THEN {Fail(s, "ForbiddenMoveToSubElement")}
  ELSE LET sp == s.n[src].par IN
  IF sp.t = "x" THEN {Fail(s, "ItemDeleted")}
  ELSE IF sp.t = "m" THEN {Fail(s, "InvalidSubElement")}
  \* "F7" in KF: the destination is write-locked while paths below src are computed upwards through it
  ELSE IF "F7" \in KF /\ IsAncestor(s, p, src) THEN {Fail(s, "ParentElementLocked")}
  ELSE LET ops == SetToSeqAny({x[1] : x \in OrigPaths(s, src)})
           sx == PathUnchecked(s, src)
           dx == PathUnchecked(s, p) IN
  IF sx.t = "err" THEN {Fail(s, sx.v)}
  ELSE IF dx.t = "err" THEN {Fail(s, dx.v)}
  ELSE LET s1 == SetF(s, sp.v, "cont", DelAt(Cont(s, sp.v), PosOfChild(s, sp.v, src)))
           \* the moved elements (src and everything below it) inherit the files of the new parent
           s2 == [ClearFm(s1, Dfs(s1, src)) EXCEPT !.n[src].par = PE(p)]
           mu == IF IsIdent(s2, src) THEN MakeUnique(s2, m, src, dx.v) ELSE [ok |-> TRUE, s |-> s2, name |-> ""] IN
  IF ~mu.ok THEN {Fail(s, "ElementNotIdentifiable")}    \* cannot happen: IsIdent and a string name
  ELSE LET dest == IF IsIdent(s2, src) THEN dx.v \o <<mu.name>> ELSE dx.v
           s3 == IF IsIdent(mu.s, src) THEN FixIdx(mu.s, m, sx.v, dest) ELSE FixIdxEach(mu.s, m, ops, sx.v, dest)
           s4 == MoveRefs(s3, m, ops, sx.v, dest)
       IN {Ok(SetF(s4, p, "cont", InsAt(Cont(s4, p), pos0, EItem(src))), src)}

RECURSIVE RemoveIdxAll(_, _, _)
RemoveIdxAll(s, m, ps) == IF ps = <<>> THEN s ELSE RemoveIdxAll(RemoveIdx(s, m, Head(ps)), m, Tail(ps))
RECURSIVE RemoveRefoAll(_, _, _)
RemoveRefoAll(s, m, rs) == IF rs = <<>> THEN s ELSE RemoveRefoAll(RemoveRefo(s, m, CData(s, Head(rs)).v, Head(rs)), m, Tail(rs))
RECURSIVE AddIdxAll(_, _, _, _, _)
AddIdxAll(s, m, pairs, srcpfx, dest) ==
  IF pairs = <<>> THEN s
  ELSE LET x == Head(pairs) IN
       IF ~IsPrefixSeq(srcpfx, x[1]) THEN AddIdxAll(s, m, Tail(pairs), srcpfx, dest)
       ELSE AddIdxAll(AddIdx(s, m, dest \o Drop(x[1], Len(srcpfx)), x[2]), m, Tail(pairs), srcpfx, dest)
RECURSIVE ReRegRefs(_, _, _, _, _, _)
\* references inside the moved subtree: those that designated a moved node are rewritten and registered;
\* "F20" in KF: the others are not registered in the destination model at all (intended: registered with their text)
ReRegRefs(s, m, rs, origset, srcpfx, dest) ==
  IF rs = <<>> THEN s
  ELSE LET r == Head(rs)
           old == CData(s, r).v IN
       IF old \in origset THEN
            LET nk == dest \o Drop(old, Len(srcpfx))
                s1 == SetF(s, r, "cont", <<CItem(PVal(nk))>>)
            IN ReRegRefs(AddRefo(s1, m, nk, r), m, Tail(rs), origset, srcpfx, dest)
       ELSE IF "F20" \in KF THEN ReRegRefs(s, m, Tail(rs), origset, srcpfx, dest)
       ELSE ReRegRefs(AddRefo(s, m, old, r), m, Tail(rs), origset, srcpfx, dest)

MoveFull(s, m, msrc, p, src, pos0, v) ==
  LET sx == PathUnchecked(s, src)
      dx == PathUnchecked(s, p)
      sp == s.n[src].par IN
  IF sx.t = "err" THEN {Fail(s, sx.v)}
  ELSE IF dx.t = "err" THEN {Fail(s, dx.v)}
  ELSE IF sp.t = "x" THEN {Fail(s, "ItemDeleted")}
  ELSE IF sp.t = "m" THEN {Fail(s, "InvalidSubElement")}
  ELSE LET op == OrigPaths(s, src)
           ops == SetToSeqAny(op)
           D == Dfs(s, src)
           rs == SelectSeq(D, LAMBDA x : KIsRef(Kind(s, x)) /\ HasRefData(s, x))
           s1 == SetF(s, sp.v, "cont", DelAt(Cont(s, sp.v), PosOfChild(s, sp.v, src)))
           s2 == RemoveRefoAll(RemoveIdxAll(s1, msrc, [j \in 1..Len(ops) |-> ops[j][1]]), msrc, rs)
           s2b == ClearFm(s2, D)             \* files of the source model mean nothing in the destination
           s3 == SetF(s2b, src, "par", PE(p))
           mu == IF IsIdent(s3, src) THEN MakeUnique(s3, m, src, dx.v) ELSE [ok |-> TRUE, s |-> s3, name |-> ""] IN
  IF ~mu.ok THEN {Fail(s, "ElementNotIdentifiable")}
  ELSE LET dest == IF IsIdent(s3, src) THEN dx.v \o <<mu.name>> ELSE dx.v
           s4 == AddIdxAll(mu.s, m, ops, sx.v, dest)
           s5 == ReRegRefs(s4, m, rs, {x[1] : x \in op}, sx.v, dest)
       IN {Ok(SetF(s5, p, "cont", InsAt(Cont(s5, p), pos0, EItem(src))), src)}

MoveHere(s, p, src, pos) ==
  LET ms == ApiModel(s, src) md == ApiModel(s, p) IN
  IF p = src THEN {Fail(s, "ForbiddenMoveToSubElement")}    \* (blocked forever before the fix)
  ELSE IF ms.t = "err" THEN {Fail(s, ms.v)}
  ELSE IF md.t = "err" THEN {Fail(s, md.v)}
  ELSE LET vs == MinVersion(s, src) vd == MinVersion(s, p) IN
  IF vs.t = "err" THEN {Fail(s, vs.v)}
  ELSE IF vd.t = "err" THEN {Fail(s, vd.v)}
  ELSE IF vs.v # vd.v THEN {Fail(s, "VersionMismatch")}
  ELSE LET r == CalcRange(s, p, NameOf(s, src), vd.v) IN
  IF r.t = "err" THEN {Fail(s, r.v)}
  ELSE IF ~PosCheck(r, pos) THEN {Fail(s, "InvalidPosition")}
  ELSE IF md.v = ms.v THEN
         LET sp == s.n[src].par IN
         IF sp.t = "m" THEN {Fail(s, "InvalidSubElement")}
         ELSE IF sp.t = "e" /\ sp.v = p THEN
                IF pos = -1 THEN {Ok(s, src)} ELSE MovePosition(s, p, src, pos)
         ELSE MoveLocal(s, md.v, p, src, PosUse(r, pos), vd.v)
       ELSE MoveFull(s, md.v, ms.v, p, src, PosUse(r, pos), vd.v)


\* ------------------------------------------------------------------ files and file membership
ParentSplittable(s, e) == LET pr == s.n[e].par IN IF pr.t = "e" THEN KSplit(Kind(s, pr.v)) ELSE TRUE

RECURSIVE PinChildren(_, _, _)
PinChildren(s, ids, F) == IF ids = <<>> THEN s
                          ELSE PinChildren(IF s.n[Head(ids)].fm = {} THEN SetF(s, Head(ids), "fm", F) ELSE s, Tail(ids), F)
RECURSIVE AddRestricted(_, _, _)
\* add_to_file_restricted: [ok, s]   (an error leaves the partial effect, as the code does)
AddRestricted(s, e, f) ==
  LET fmr == ApiFm(s, e)
      local == IF fmr.t = "ok" THEN fmr.local ELSE TRUE
      cur == IF fmr.t = "ok" THEN fmr.set ELSE {} IN
  IF f \in cur THEN [ok |-> TRUE, s |-> s]
  ELSE LET s1 == IF KSplit(Kind(s, e)) THEN PinChildren(s, SubIds(s, e), cur) ELSE s
           pr == s.n[e].par IN
       IF pr.t = "x" THEN [ok |-> FALSE, s |-> s1]
       ELSE LET s2 == IF ParentSplittable(s, e) \/ local THEN SetF(s1, e, "fm", cur \cup {f}) ELSE s1 IN
            IF pr.t = "e" THEN AddRestricted(s2, pr.v, f) ELSE [ok |-> TRUE, s |-> s2]

CreateFile(s, m, name, ver) ==
  IF \E j \in 1..Len(s.files[m]) : s.f[s.files[m][j]].name = name THEN {Fail(s, "DuplicateFilenameError")}
  ELSE LET fid == Len(s.f) + 1
           s1 == [s EXCEPT !.f = Append(@, [name |-> name, ver |-> ver, m |-> m]), !.files[m] = Append(@, fid)]
       IN {Ok(AddRestricted(s1, s.root[m], fid).s, fid)}

AddToFile(s, e, f) ==
  IF s.n[e].par.t = "x" THEN {Fail(s, "ItemDeleted")}
  ELSE IF ~ParentSplittable(s, e) THEN {Fail(s, "FilesetModificationForbidden")}
  ELSE LET md == ApiModel(s, e) IN
  IF md.t = "err" THEN {Fail(s, md.v)}
  ELSE IF md.v # s.f[f].m \/ ~(\E j \in 1..Len(s.files[md.v]) : s.files[md.v][j] = f) THEN {Fail(s, "InvalidFile")}
  ELSE LET fmr == ApiFm(s, e) IN
  IF fmr.t = "err" THEN {Fail(s, fmr.v)}
  ELSE IF f \in fmr.set THEN {Ok(s, 0)}
  ELSE LET s1 == SetF(s, e, "fm", fmr.set \cup {f})
           pr == s.n[e].par IN
       IF pr.t = "e" THEN LET ar == AddRestricted(s1, pr.v, f) IN IF ar.ok THEN {Ok(ar.s, 0)} ELSE {Fail(ar.s, "ItemDeleted")}
       ELSE {Ok(s1, 0)}

\* remove_sub_element with the result ignored
TryRemove(s, p, c) == (CHOOSE o \in RemoveSub(s, p, c) : TRUE).st
RECURSIVE StripFile(_, _, _, _)
\* walk the (pre-computed) DFS list: drop f from non-empty local sets; returns [s, del] with del the nodes that became empty
StripFile(s, D, f, del) ==
  IF D = <<>> THEN [s |-> s, del |-> del]
  ELSE LET x == Head(D) IN
       IF s.n[x].fm # {} THEN
            LET s1 == SetF(s, x, "fm", s.n[x].fm \ {f}) IN
            StripFile(s1, Tail(D), f, IF s1.n[x].fm = {} THEN Append(del, x) ELSE del)
       ELSE StripFile(s, Tail(D), f, del)
RECURSIVE DeleteAll(_, _)
DeleteAll(s, del) ==
  IF del = <<>> THEN s
  ELSE LET x == Head(del) pr == s.n[x].par IN
       DeleteAll(IF pr.t = "e" THEN TryRemove(s, pr.v, x) ELSE s, Tail(del))

RemoveFromFile(s, e, f) ==
  IF s.n[e].par.t = "x" THEN {Fail(s, "ItemDeleted")}
  ELSE IF ~ParentSplittable(s, e) THEN {Fail(s, "FilesetModificationForbidden")}
  ELSE LET md == ApiModel(s, e) IN
  IF md.t = "err" THEN {Fail(s, md.v)}
  ELSE IF md.v # s.f[f].m THEN {Fail(s, "InvalidFile")}
  ELSE LET fmr == ApiFm(s, e) IN
  IF fmr.t = "err" THEN {Fail(s, fmr.v)}
  ELSE LET rest == fmr.set \ {f}
           pr == s.n[e].par
           s1 == IF rest = {} /\ pr.t = "e" THEN TryRemove(s, pr.v, e) ELSE s
           s2 == SetF(s1, e, "fm", rest)
           sf == StripFile(s2, Dfs(s2, e), f, <<>>)
       IN {Ok(DeleteAll(sf.s, sf.del), 0)}

RemoveFile(s, m, f) ==
  LET F == s.files[m]
      S == {j \in 1..Len(F) : F[j] = f} IN
  IF S = {} THEN {Ok(s, 0)}
  ELSE LET pos == Min(S)
           F2 == IF pos = Len(F) THEN SubSeq(F, 1, Len(F) - 1)
                 ELSE [SubSeq(F, 1, Len(F) - 1) EXCEPT ![pos] = F[Len(F)]]       \* swap_remove
           s1 == [s EXCEPT !.files[m] = F2]
           rt == s.root[m] IN
       IF F2 = <<>> THEN
            LET s2 == RemoveInternalList(s1, m, SubIds(s1, rt), <<>>)
                s3 == [s2 EXCEPT !.n[rt].cont = <<>>, !.n[rt].fm = {}, !.idx[m] = {}, !.refo[m] = {}]
            IN {Ok(s3, 0)}
       ELSE {Ok((CHOOSE o \in RemoveFromFile(s1, rt, f) : TRUE).st, 0)}

\* ------------------------------------------------------------------ duplicate()
RECURSIVE DupFiles(_, _, _)
DupFiles(s, M, fs) == IF fs = <<>> THEN s
                      ELSE DupFiles((CHOOSE o \in CreateFile(s, M, s.f[Head(fs)].name, s.f[Head(fs)].ver) : TRUE).st, M, Tail(fs))
RECURSIVE DupCopies(_, _, _)
\* [ok, s, err]
DupCopies(s, rid, ids) ==
  IF ids = <<>> THEN [ok |-> TRUE, s |-> s, err |-> ""]
  ELSE LET o == CHOOSE x \in CopySub(s, rid, Head(ids), -1) : TRUE IN
       IF o.res.t # "ok" THEN [ok |-> FALSE, s |-> s, err |-> o.res.v] ELSE DupCopies(o.st, rid, Tail(ids))
RECURSIVE DupFm(_, _, _, _, _)
\* walk both trees in parallel (positionally, like the zip of the two iterators) and transfer the local file sets by file name
DupFm(s, D1, D2, m, M) ==
  IF D1 = <<>> \/ D2 = <<>> THEN s
  ELSE LET src == s.n[Head(D1)].fm
           mapped == {g \in SeqToSet(s.files[M]) : \E f \in src : s.f[f].name = s.f[g].name}
       IN DupFm(SetF(s, Head(D2), "fm", mapped), Tail(D1), Tail(D2), m, M)
Duplicate(s, m) ==
  LET M == Len(s.root) + 1
      rid == Len(s.n) + 1
      s0 == [s EXCEPT !.n = Append(@, NewNode("AUTOSAR", PM(M))), !.root = Append(@, rid), !.files = Append(@, <<>>),
                      !.idx = Append(@, {}), !.refo = Append(@, {})]
      s1a == DupFiles(s0, M, s.files[m])
      \* comment and attributes of the root element are transferred (when the model has files)
      s1 == IF s.files[m] = <<>> THEN s1a
            ELSE [s1a EXCEPT !.n[rid] = [@ EXCEPT !.cmt = s.n[s.root[m]].cmt, !.at = s.n[s.root[m]].at]]
      dc == DupCopies(s1, rid, SubIds(s1, s1.root[m])) IN
  IF ~dc.ok THEN {Fail(s, dc.err)}
  ELSE {Ok(DupFm(dc.s, Dfs(dc.s, dc.s.root[m]), Dfs(dc.s, rid), m, M), M)}

\* ------------------------------------------------------------------ load_buffer: documents, parsing, merging
\* A document is [ver, root]; a document node is [n |-> element name, v |-> <<>> or <<value>>, at |-> <<[n, v], ..>>, c |-> children].
\* The catalogue LoadDocs (below) holds valid documents only: lexer / parser errors are the business of spec/doc.
DN(n, c) == [n |-> n, v |-> <<>>, at |-> <<>>, c |-> c]
DL(n, val) == [n |-> n, v |-> <<val>>, at |-> <<>>, c |-> <<>>]
DA(n, at, val) == [n |-> n, v |-> <<val>>, at |-> at, c |-> <<>>]
DNamed(n, name, c) == DN(n, <<DL("SHORT-NAME", SVal(name))>> \o c)
DX(n, at, c) == [n |-> n, v |-> <<>>, at |-> at, c |-> c]
\* flatten in document order: sequence of [n, v, at, par (position of the parent in the sequence, 0 for the root)]
RECURSIVE Flatten(_, _, _)
RECURSIVE FlattenList(_, _, _)
Flatten(d, par, acc) == FlattenList(d.c, Len(acc) + 1, Append(acc, [n |-> d.n, v |-> d.v, at |-> d.at, par |-> par]))
FlattenList(ds, par, acc) == IF ds = <<>> THEN acc ELSE FlattenList(Tail(ds), par, Flatten(Head(ds), par, acc))
\* kinds of the flattened nodes (find_sub_element of the parent's type in the file's version); "" if the name is not allowed there
\* (a lenient load also accepts a sub element that exists in another version only)
RECURSIVE DocKinds(_, _, _, _)
DocKinds(F, v, len, acc) ==
  IF Len(acc) = Len(F) THEN acc
  ELSE LET j == Len(acc) + 1 IN
       IF F[j].par = 0 THEN DocKinds(F, v, len, Append(acc, "AUTOSAR"))
       ELSE LET pk == acc[F[j].par]
                c0 == IF pk = "" THEN 0 ELSE ChildIx(pk, F[j].n, v)
                ci == IF c0 = 0 /\ pk # "" /\ len THEN ChildIxAny(pk, F[j].n) ELSE c0 IN
            DocKinds(F, v, len, Append(acc, IF ci = 0 THEN "" ELSE KChildren(pk)[ci].kind))
\* the parsed tree as nodes base+1 .. base+Len(F), not attached to anything (the root's parent link is set by the caller)
ParsedNodes(F, K, base) ==
  [j \in 1..Len(F) |->
     [k |-> K[j], par |-> IF F[j].par = 0 THEN PX ELSE PE(base + F[j].par),
      cont |-> IF F[j].v # <<>> THEN <<CItem(F[j].v[1])>>
               ELSE LET ch == SelectSeq([i \in 1..Len(F) |-> i], LAMBDA i : F[i].par = j) IN [x \in 1..Len(ch) |-> EItem(base + ch[x])],
      at |-> F[j].at, cmt |-> <<>>, fm |-> {}]]

\* --- the merge of an incoming tree (side b, root rb) into the model (side a): AutosarModel::merge_element
SameValue(x, y) == x.k = y.k /\ x.v = y.v
\* the DEFINITION-REF text of a BSW value: <<>> or <<value>>
DefRef(s, e) ==
  LET C == SubIds(s, e)
      S == {j \in 1..Len(C) : NameOf(s, C[j]) = "DEFINITION-REF"} IN
  IF S = {} THEN <<>> ELSE LET d == C[Min(S)] IN IF HasCData(s, d) /\ CData(s, d).k \in {"s", "p"} THEN <<CData(s, d)>> ELSE <<>>
DefRefEq(s, x, y) == LET a == DefRef(s, x) b == DefRef(s, y) IN (a = <<>> /\ b = <<>>) \/ (a # <<>> /\ b # <<>> /\ SameValue(a[1], b[1]))
MergedB(acc) == {acc.merge[j][2] : j \in 1..Len(acc.merge)}
\* an element of b that the positional walk did not pair: merge it with the same identifiable element of a, or import it
MergeOrImport(s, A, eb, pos, acc) ==
  IF eb \in MergedB(acc) THEN acc
  ELSE LET S == {j \in 1..Len(A) : NameOf(s, A[j]) = NameOf(s, eb) /\ ItemName(s, A[j]) = ItemName(s, eb)} IN
       IF IsIdent(s, eb) /\ S # {} THEN [acc EXCEPT !.merge = Append(@, <<A[Min(S)], eb>>)]
       ELSE [acc EXCEPT !.bonly = Append(@, <<eb, pos>>)]
RECURSIVE MergeWalk(_, _, _, _, _, _, _, _)
\* acc = [err, aonly, bonly (<<element, position>>), merge (<<a, b>>), ia, ib]
MergeWalk(s, pa, A, B, ia, ib, spl, acc) ==
  IF ia > Len(A) \/ ib > Len(B) THEN [acc EXCEPT !.ia = ia, !.ib = ib]
  ELSE
    LET ea == A[ia]
        eb == B[ib]
        act ==
          IF NameOf(s, ea) = NameOf(s, eb) THEN
             IF IsIdent(s, ea) THEN
                IF ItemName(s, ea) = ItemName(s, eb) THEN [t |-> "eq", o |-> 0]
                ELSE LET S == {j \in 1..Len(B) : NameOf(s, B[j]) = NameOf(s, ea) /\ ItemName(s, B[j]) = ItemName(s, ea)} IN
                     IF S # {} THEN [t |-> "uneq", o |-> B[Min(S)]]
                     ELSE IF spl THEN [t |-> "a", o |-> 0] ELSE [t |-> "err", o |-> 0]
             ELSE IF DefRefEq(s, ea, eb) THEN [t |-> "eq", o |-> 0]
             ELSE LET S == {j \in 1..Len(B) : NameOf(s, B[j]) = NameOf(s, ea) /\ DefRefEq(s, B[j], ea)} IN
                  IF S # {} THEN [t |-> "uneq", o |-> B[Min(S)]] ELSE [t |-> "a", o |-> 0]
          ELSE LET pk == Kind(s, pa)
                   xa == KChildren(pk)[ChildIxAny(pk, NameOf(s, ea))].idx
                   xb == KChildren(pk)[ChildIxAny(pk, NameOf(s, eb))].idx IN
               IF CmpIdx(xa, xb) < 0 THEN [t |-> "a", o |-> 0] ELSE [t |-> "b", o |-> 0]
    IN CASE act.t = "err" -> [acc EXCEPT !.err = TRUE]
         [] act.t = "eq" -> MergeWalk(s, pa, A, B, ia + 1, ib + 1, spl,
                                      IF eb \in MergedB(acc) THEN acc ELSE [acc EXCEPT !.merge = Append(@, <<ea, eb>>)])
         [] act.t = "uneq" -> MergeWalk(s, pa, A, B, ia + 1, ib, spl,
                                        IF act.o \in MergedB(acc) THEN acc ELSE [acc EXCEPT !.merge = Append(@, <<ea, act.o>>)])
         [] act.t = "a" -> MergeWalk(s, pa, A, B, ia + 1, ib, spl, [acc EXCEPT !.aonly = Append(@, ea)])
         [] OTHER -> MergeWalk(s, pa, A, B, ia, ib + 1, spl, MergeOrImport(s, A, eb, ia - 1, acc))
RECURSIVE RestB(_, _, _, _, _, _)
RestB(s, A, B, ib, pos, acc) == IF ib > Len(B) THEN acc ELSE RestB(s, A, B, ib + 1, pos, MergeOrImport(s, A, B[ib], pos, acc))
RECURSIVE PinAOnly(_, _, _)
PinAOnly(s, ids, F) == IF ids = <<>> THEN s ELSE PinAOnly(IF s.n[Head(ids)].fm = {} THEN SetF(s, Head(ids), "fm", F) ELSE s, Tail(ids), F)
RECURSIVE ImportNew(_, _, _, _, _, _)
\* import_new_items: [ok, s]
ImportNew(s, pa, bonly, k, nf, vb) ==
  IF k > Len(bonly) THEN [ok |-> TRUE, s |-> s]
  ELSE LET eb == bonly[k][1]
           s1 == [s EXCEPT !.n[eb].par = PE(pa), !.n[eb].fm = @ \cup {nf}]
           r == CalcRange(s1, pa, NameOf(s1, eb), vb) IN
       IF r.t = "err" THEN [ok |-> FALSE, s |-> s1]
       ELSE LET want == bonly[k][2] + (k - 1)
                dest == IF want < r.lo THEN r.lo ELSE IF want > r.hi THEN r.hi ELSE want IN
            ImportNew(SetF(s1, pa, "cont", InsAt(Cont(s1, pa), dest, EItem(eb))), pa, bonly, k + 1, nf, vb)
RECURSIVE MergeEl(_, _, _, _, _, _)
RECURSIVE MergeSubs(_, _, _, _, _, _)
\* [ok, s]
MergeEl(s, pa, pb, files, nf, vb) ==
  LET A == SubIds(s, pa)
      B == SubIds(s, pb)
      w0 == MergeWalk(s, pa, A, B, 1, 1, KSplit(Kind(s, pa)), [err |-> FALSE, aonly |-> <<>>, bonly |-> <<>>, merge |-> <<>>, ia |-> 1, ib |-> 1]) IN
  IF w0.err THEN [ok |-> FALSE, s |-> s]
  ELSE LET w1 == [w0 EXCEPT !.aonly = @ \o SubSeq(A, w0.ia, Len(A))]
           w == RestB(s, A, B, w0.ib, Len(Cont(s, pa)), w1)
           s1 == PinAOnly(s, w.aonly, files)
           im == ImportNew(s1, pa, w.bonly, 1, nf, vb) IN
       IF ~im.ok THEN im ELSE MergeSubs(im.s, w.merge, 1, files, nf, vb)
MergeSubs(s, pairs, k, files, nf, vb) ==
  IF k > Len(pairs) THEN [ok |-> TRUE, s |-> s]
  ELSE LET ea == pairs[k][1]
           fl == IF s.n[ea].fm # {} THEN s.n[ea].fm ELSE files
           r == MergeEl(s, ea, pairs[k][2], fl, nf, vb) IN
       IF ~r.ok THEN r
       ELSE MergeSubs(IF r.s.n[ea].fm # {} THEN SetF(r.s, ea, "fm", r.s.n[ea].fm \cup {nf}) ELSE r.s, pairs, k + 1, files, nf, vb)

\* --- the handles: parsed elements that are not part of the model afterwards (merged away) are never seen by anyone;
\* the surviving new nodes are numbered in the order of a walk over the model's tree (the order in which a client meets them)
PosIn(sq, x) == LET S == {j \in 1..Len(sq) : sq[j] = x} IN IF S = {} THEN 0 ELSE Min(S)
RECURSIVE SortNat(_)
SortNat(sq) == IF sq = <<>> THEN <<>> ELSE InsSorted(SortNat(Tail(sq)), Head(sq))
Renumber(s, m, base) ==
  LET order == SelectSeq(Dfs(s, s.root[m]), LAMBDA i : i > base)
      Map(i) == IF i <= base THEN i ELSE LET q == PosIn(order, i) IN IF q = 0 THEN 0 ELSE base + q
      MapNode(nd) == [nd EXCEPT !.par = IF @.t = "e" THEN PE(Map(@.v)) ELSE @,
                                !.cont = [j \in 1..Len(@) |-> IF @[j].t = "e" THEN EItem(Map(@[j].id)) ELSE @[j]]]
  IN [s EXCEPT !.n = [j \in 1..(base + Len(order)) |-> MapNode(s.n[IF j <= base THEN j ELSE order[j - base]])],
               !.root[m] = Map(@),
               !.idx[m] = {<<e[1], Map(e[2])>> : e \in {x \in @ : Map(x[2]) # 0}},
               !.refo[m] = {<<e[1], SortNat([j \in 1..Len(e[2]) |-> Map(e[2][j])])>> : e \in @}]

\* the catalogue of documents (rendered to text for the real library by LoadText)
PkgA(c) == DNamed("AR-PACKAGE", "a", c)
Els(c) == DN("ELEMENTS", c)
Sys(n) == DNamed("SYSTEM-SIGNAL", n, <<>>)
ISigRef(n, target) == DNamed("I-SIGNAL", n, <<DA("SYSTEM-SIGNAL-REF", <<[n |-> "DEST", v |-> EVal("SYSTEM-SIGNAL")]>>, PVal(target))>>)
DescX(n) == DN("DESC", <<DX("L-2", <<[n |-> "L", v |-> EVal("EN")]>>, <<DNamed("XREF-TARGET", n, <<>>)>>)>>)
DocOf(ver, pkgs) == [ver |-> ver, root |-> DN("AUTOSAR", <<DN("AR-PACKAGES", pkgs)>>)]
LoadDocs ==
  [pb |-> DocOf("V50", <<PkgA(<<>>), DNamed("AR-PACKAGE", "b", <<>>)>>),
   pe |-> DocOf("V50", <<PkgA(<<Els(<<Sys("s"), Sys("t"), ISigRef("i", <<"a", "s">>)>>)>>)>>),
   pr |-> DocOf("V50", <<PkgA(<<Els(<<ISigRef("j", <<"a", "t">>), Sys("t")>>)>>)>>),
   pn |-> DocOf("V50", <<DNamed("AR-PACKAGE", "c", <<>>), PkgA(<<DN("AR-PACKAGES", <<DNamed("AR-PACKAGE", "p", <<Els(<<Sys("u")>>)>>)>>)>>)>>),
   po |-> DocOf("V401", <<PkgA(<<Els(<<Sys("o")>>)>>)>>),
   \* a child that the oldest version does not know, contributed by a newer file
   pf |-> DocOf("V50", <<PkgA(<<DN("SHORT-NAME-FRAGMENTS", <<>>)>>)>>),
   px |-> DocOf("V50", <<PkgA(<<Els(<<DNamed("I-SIGNAL", "s", <<>>)>>)>>)>>),
   \* two files that diverge below a non-splittable element (differently named XREF-TARGETs in one L-2); cf also brings a new package with a reference
   cd |-> DocOf("V50", <<PkgA(<<DescX("x")>>), DNamed("AR-PACKAGE", "b", <<>>)>>),
   cf |-> DocOf("V50", <<DNamed("AR-PACKAGE", "z", <<Els(<<ISigRef("q", <<"a", "s">>)>>)>>), PkgA(<<DescX("y")>>)>>),
   \* the same siblings of different kinds in another order, one of them with more content in the second file
   pi1 |-> DocOf("V50", <<PkgA(<<Els(<<Sys("s"), DNamed("I-SIGNAL", "i", <<>>)>>)>>)>>),
   pi2 |-> DocOf("V50", <<PkgA(<<Els(<<DNamed("I-SIGNAL", "i", <<DL("DATA-TYPE-POLICY", EVal("LEGACY"))>>), Sys("s")>>)>>)>>),
   \* two new packages next to each other
   p2 |-> DocOf("V50", <<DNamed("AR-PACKAGE", "y", <<>>), DNamed("AR-PACKAGE", "z", <<>>)>>),
   \* mixed content: an inline element (to be merged with the XREF-TARGET that cd has in the same L-2)
   mt |-> DocOf("V50", <<PkgA(<<DN("DESC", <<DX("L-2", <<[n |-> "L", v |-> EVal("EN")]>>, <<DL("TT", SVal("x"))>>)>>)>>)>>),
   \* a kind clash (k2 against k1 at /a10/s) behind a new package whose path /a1 is a string prefix, but no ancestor, of /a10
   k1 |-> DocOf("V50", <<DNamed("AR-PACKAGE", "a10", <<Els(<<Sys("s")>>)>>)>>),
   k2 |-> DocOf("V50", <<DNamed("AR-PACKAGE", "a1", <<>>), DNamed("AR-PACKAGE", "a10", <<Els(<<DNamed("I-SIGNAL", "s", <<>>)>>)>>)>>),
   \* one path defined as two kinds of elements inside one file
   dupk |-> DocOf("V50", <<PkgA(<<Els(<<Sys("s"), DNamed("I-SIGNAL", "s", <<>>)>>)>>)>>),
   \* an element that the file's own version does not have (accepted by a lenient load only), next to other children
   pv |-> DocOf("V401", <<PkgA(<<DN("SHORT-NAME-FRAGMENTS", <<>>), Els(<<Sys("v")>>)>>)>>),
   \* the documents of the random driver
   ok_a |-> DocOf("V50", <<PkgA(<<Els(<<Sys("s"), ISigRef("i", <<"a", "s">>)>>)>>)>>),
   ok_b |-> DocOf("V50", <<DNamed("AR-PACKAGE", "b", <<Els(<<Sys("t")>>)>>), PkgA(<<Els(<<ISigRef("j", <<"a", "s">>)>>)>>)>>),
   ok_old |-> DocOf("V401", <<DNamed("AR-PACKAGE", "p", <<Els(<<Sys("s")>>)>>)>>),
   dangling |-> DocOf("V50", <<DNamed("AR-PACKAGE", "ab", <<Els(<<ISigRef("k", <<"a", "nowhere">>)>>)>>)>>)]
RECURSIVE RegisterIdents(_, _, _)
\* the identifiable elements of the file, in document order: an existing entry for the same path is kept
RegisterIdents(s, m, ids) ==
  IF ids = <<>> THEN s
  ELSE LET e == Head(ids)
           pp == ApiPath(s, e) IN
       RegisterIdents(IF pp.t = "ok" /\ Lookup(s, m, pp.v) = 0 THEN AddIdx(s, m, pp.v, e) ELSE s, m, Tail(ids))
RECURSIVE RegisterRefs(_, _, _, _)
\* every reference element of the file is entered in the referrer lists - also those that were merged away with their
\* parent (the model already had the same element): such an entry designates nothing any more (id 0 in the lists)
RegisterRefs(s, m, ids, alive) ==
  IF ids = <<>> THEN s
  ELSE RegisterRefs(AddRefo(s, m, CData(s, Head(ids)).v, IF Head(ids) \in alive THEN Head(ids) ELSE 0), m, Tail(ids), alive)

Load(s, m, dname, fname, len) ==
  IF \E j \in 1..Len(s.files[m]) : s.f[s.files[m][j]].name = fname THEN {Fail(s, "DuplicateFilenameError")}
  ELSE
  LET doc == LoadDocs[dname]
      F == Flatten(doc.root, 0, <<>>)
      K == DocKinds(F, doc.ver, len, <<>>) IN
  \* an element that the file's version does not have is an error of a strict load
  IF \E j \in 1..Len(K) : K[j] = "" THEN {Fail(s, "ParserError")}
  ELSE LET
      base == Len(s.n)
      rb == base + 1
      fid == Len(s.f) + 1
      \* the parsed tree with its root provisionally linked to the model, so that paths can be computed on it
      sp == [s EXCEPT !.n = @ \o [ParsedNodes(F, K, base) EXCEPT ![1].par = PM(m)]]
      new == [j \in 1..Len(F) |-> base + j]
      idents == SelectSeq(new, LAMBDA i : IsIdent(sp, i) /\ ItemName(sp, i) # <<>>)
      refs == SelectSeq(new, LAMBDA i : KIsRef(Kind(sp, i)) /\ HasRefData(sp, i))
      \* a path of the new data that the model has as another kind of element, or that the new data itself defines as two kinds
      clash == \/ \E j \in 1..Len(idents) : LET o == Lookup(s, m, ApiPath(sp, idents[j]).v) IN o # 0 /\ NameOf(s, o) # NameOf(sp, idents[j])
               \/ \E i, j \in 1..Len(idents) : i < j /\ ApiPath(sp, idents[i]).v = ApiPath(sp, idents[j]).v /\ NameOf(sp, idents[i]) # NameOf(sp, idents[j])
  IN
  IF clash THEN {Fail(s, "OverlappingDataError")}
  ELSE
  LET s1 == [sp EXCEPT !.f = Append(@, [name |-> fname, ver |-> doc.ver, m |-> m])]
      merged ==
        IF s.files[m] = <<>> THEN
             \* the parsed root becomes the root of the model; the old (empty) root is detached
             [ok |-> TRUE, s |-> [s1 EXCEPT !.n[rb].fm = {fid}, !.n[s.root[m]].par = PX, !.root[m] = rb]]
        ELSE LET r == MergeEl([s1 EXCEPT !.n[rb].par = PX], s.root[m], rb, SeqToSet(s.files[m]), fid, doc.ver) IN
             IF ~r.ok THEN r ELSE [ok |-> TRUE, s |-> SetF(r.s, s.root[m], "fm", r.s.n[s.root[m]].fm \cup {fid})]
  IN
  \* files that diverge below a non-splittable element are rejected; the rejected load has no effect (what was merged up to
  \* that point is taken out again)
  IF ~merged.ok THEN {Fail(s, "InvalidFileMerge")}
  ELSE LET alive == SeqToSet(Dfs(merged.s, merged.s.root[m]))
           s2 == RegisterIdents(merged.s, m, SelectSeq(idents, LAMBDA i : i \in alive))
           s3 == RegisterRefs(s2, m, refs, alive)
           s4 == [s3 EXCEPT !.files[m] = Append(@, fid)]
       IN {Ok(Renumber(s4, m, base), fid)}

\* rendering (no insignificant white space)
XsdOf(v) == CASE v = "V401" -> "AUTOSAR_4-0-1.xsd" [] v = "V430" -> "AUTOSAR_4-3-0.xsd" [] OTHER -> "AUTOSAR_00050.xsd"
RECURSIVE JoinPath(_)
JoinPath(p) == IF p = <<>> THEN "" ELSE "/" \o Head(p) \o JoinPath(Tail(p))
ValText(val) == IF val.k = "p" THEN JoinPath(val.v) ELSE val.v
RECURSIVE RenderAttrs(_)
RenderAttrs(at) == IF at = <<>> THEN "" ELSE " " \o Head(at).n \o "=\"" \o ValText(Head(at).v) \o "\"" \o RenderAttrs(Tail(at))
RECURSIVE RenderDoc(_)
RECURSIVE RenderDocs(_)
RenderDoc(d) == "<" \o d.n \o RenderAttrs(d.at) \o ">" \o (IF d.v # <<>> THEN ValText(d.v[1]) ELSE RenderDocs(d.c)) \o "</" \o d.n \o ">"
RenderDocs(ds) == IF ds = <<>> THEN "" ELSE RenderDoc(Head(ds)) \o RenderDocs(Tail(ds))
LoadText(dname) ==
  LET doc == LoadDocs[dname] IN
  "<?xml version=\"1.0\" encoding=\"utf-8\"" \o (IF dname \in {"pe", "pn"} THEN " standalone=\"no\"" ELSE "") \o "?>\n<AUTOSAR xsi:schemaLocation=\"http://autosar.org/schema/r4.0 " \o XsdOf(doc.ver)
  \o "\" xmlns=\"http://autosar.org/schema/r4.0\" xmlns:xsi=\"http://www.w3.org/2001/XMLSchema-instance\">" \o RenderDocs(doc.root.c) \o "</AUTOSAR>"

\* ------------------------------------------------------------------ dispatcher: action record -> outcomes
\* action fields: op, and (as needed) m, p, c, k (element name), name, pos, val, an, f, ver
Do(s, a) ==
  CASE a.op = "CreateFile"     -> CreateFile(s, a.m, a.name, a.ver)
    [] a.op = "RemoveFile"     -> RemoveFile(s, a.m, a.f)
    [] a.op = "CreateSub"      -> CreateSub(s, a.p, a.k, a.pos)
    [] a.op = "CreateNamed"    -> CreateNamed(s, a.p, a.k, a.name, a.pos)
    [] a.op = "Copy"           -> CopySub(s, a.p, a.c, a.pos)
    [] a.op = "Move"           -> MoveHere(s, a.p, a.c, a.pos)
    [] a.op = "Remove"         -> RemoveSub(s, a.p, a.c)
    [] a.op = "RemoveKind"     -> RemoveKind(s, a.p, a.k)
    [] a.op = "Rename"         -> Rename(s, a.p, a.name)
    [] a.op = "SetText"        -> SetText(s, a.p, a.val)
    [] a.op = "RemoveText"     -> RemoveText(s, a.p)
    [] a.op = "SetRef"         -> SetRefTarget(s, a.p, a.c)
    [] a.op = "SetAttr"        -> SetAttr(s, a.p, a.an, a.val)
    [] a.op = "RemoveAttr"     -> RemoveAttr(s, a.p, a.an)
    [] a.op = "SetComment"     -> SetComment(s, a.p, a.name)
    [] a.op = "AddToFile"      -> AddToFile(s, a.p, a.f)
    [] a.op = "RemoveFromFile" -> RemoveFromFile(s, a.p, a.f)
    [] a.op = "InsertText"     -> InsertText(s, a.p, a.pos, a.name)
    [] a.op = "RemoveTextItem" -> RemoveTextItem(s, a.p, a.pos)
    [] a.op = "Duplicate"      -> Duplicate(s, a.m)
    [] a.op = "Load"           -> Load(s, a.m, a.k, a.name, a.ver = "lenient")

\* the empty universe: NM models without files
EmptyState(NM) ==
  [n |-> [m \in 1..NM |-> [NewNode("AUTOSAR", PM(m)) EXCEPT !.at = <<>>]],
   root |-> [m \in 1..NM |-> m], files |-> [m \in 1..NM |-> <<>>], f |-> <<>>,
   idx |-> [m \in 1..NM |-> {}], refo |-> [m \in 1..NM |-> {}]]

=============================================================================
