------------------------------- MODULE Numbers -------------------------------
(* E8: the AUTOSAR numeric lexical forms over a symbolic digit alphabet and their integer value (for values   *)
(* below 2^31: TLC's integers are 32 bit), for the interpretation functions parse_integer::<W>, parse_float     *)
(* and parse_bool.  Generation of all texts up to MaxLen symbols with the expected result per requested width; *)
(* judgement of the records the real library produced.                                                          *)
EXTENDS Integers, Sequences, FiniteSets, TLC, Json, IOUtils

CONSTANTS Mode, MaxLen
VARIABLE x

Sym == {"0", "1", "7", "8", "9", "a", "f", "x", "b", "+", "-"}
DecVal(c) == CASE c = "0" -> 0 [] c = "1" -> 1 [] c = "7" -> 7 [] c = "8" -> 8 [] c = "9" -> 9 [] OTHER -> -1
HexVal(c) == CASE c = "a" -> 10 [] c = "b" -> 11 [] c = "f" -> 15 [] OTHER -> DecVal(c)
RECURSIVE FoldH(_, _, _)
FoldH(s, base, acc) == IF s = <<>> THEN acc ELSE FoldH(Tail(s), base, acc * base + HexVal(Head(s)))
AllIn(s, ok(_)) == \A i \in 1..Len(s) : ok(s[i])
IsDec(c) == DecVal(c) >= 0
IsHex(c) == HexVal(c) >= 0
IsOct(c) == c \in {"0", "1", "7"}
IsBin(c) == c \in {"0", "1"}
Drop(s, k) == SubSeq(s, k + 1, Len(s))
\* the lexical forms: [ok, v]
Form(s) ==
  IF s = <<"0">> THEN [ok |-> TRUE, v |-> 0]
  ELSE IF Len(s) >= 3 /\ s[1] = "0" /\ s[2] = "x" /\ AllIn(Drop(s, 2), IsHex) THEN [ok |-> TRUE, v |-> FoldH(Drop(s, 2), 16, 0)]
  ELSE IF Len(s) >= 3 /\ s[1] = "0" /\ s[2] = "b" /\ AllIn(Drop(s, 2), IsBin) THEN [ok |-> TRUE, v |-> FoldH(Drop(s, 2), 2, 0)]
  ELSE IF Len(s) >= 2 /\ s[1] = "0" /\ AllIn(Drop(s, 1), IsOct) THEN [ok |-> TRUE, v |-> FoldH(Drop(s, 1), 8, 0)]
  ELSE LET sign == IF s # <<>> /\ s[1] = "-" THEN -1 ELSE 1
           body == IF s # <<>> /\ s[1] \in {"+", "-"} THEN Drop(s, 1) ELSE s IN
       IF body # <<>> /\ body[1] \in {"1", "7", "8", "9"} /\ AllIn(body, IsDec) THEN [ok |-> TRUE, v |-> sign * FoldH(body, 10, 0)]
       ELSE [ok |-> FALSE, v |-> 0]
Width == [i8 |-> <<-128, 127>>, u8 |-> <<0, 255>>, i16 |-> <<-32768, 32767>>, u16 |-> <<0, 65535>>,
          i32 |-> <<-2147483647 - 1, 2147483647>>, u32 |-> <<0, 2147483647>>, i64 |-> <<-2147483647 - 1, 2147483647>>, u64 |-> <<0, 2147483647>>]
\* (u32 / i64 / u64: every value reachable with MaxLen <= 6 symbols is far below 2^31, so the upper bounds above never bind)
Fits(w, v) == Width[w][1] <= v /\ v <= Width[w][2]
Expect(s) == LET f == Form(s) IN [w \in DOMAIN Width |-> IF f.ok /\ Fits(w, f.v) THEN <<f.v>> ELSE <<>>]
RECURSIVE Cat(_)
Cat(s) == IF s = <<>> THEN "" ELSE Head(s) \o Cat(Tail(s))
Texts == UNION {[1..n -> Sym] : n \in 1..MaxLen}

\* ---------------------------------------------------------------- judgement
ASSUME Mode # "judge" \/ TLCSet(12, ndJsonDeserialize(IOEnv.RESULTS))
Log == TLCGet(12)
\* record: [text, inform (text is in a lexical form), exp (per width: <<>> or <<v>>), got (per width: <<>> or <<v>>), kind]
ParseExact(r) == (r.kind = "int" /\ r.inform) => \A w \in DOMAIN Width : r.got[w] = r.exp[w]
FloatExact(r) == (r.kind = "int" /\ r.inform /\ r.exp.i64 # <<>>) => r.fgot = r.exp.i64
RoundTrip(r) == (r.kind = "fmt") => r.same
Judge(j) == LET r == Log[j] IN
            /\ IF ParseExact(r) THEN TRUE ELSE PrintT(<<"V", ToJson([step |-> j, pred |-> "ParseExact", prop |-> "C20", r |-> r])>>)
            /\ IF FloatExact(r) THEN TRUE ELSE PrintT(<<"V", ToJson([step |-> j, pred |-> "FloatExact", prop |-> "C20", r |-> r])>>)
            /\ IF RoundTrip(r) THEN TRUE ELSE PrintT(<<"V", ToJson([step |-> j, pred |-> "FormatParse", prop |-> "C20", r |-> r])>>)

Init == CASE Mode = "gen" -> x \in Texts /\ PrintT(<<"I", ToJson([text |-> Cat(x), inform |-> Form(x).ok, exp |-> Expect(x)])>>)
          [] OTHER -> x = 1 /\ (IF Len(Log) >= 1 THEN Judge(1) ELSE TRUE)
Next == Mode = "judge" /\ x < Len(Log) /\ x' = x + 1 /\ Judge(x + 1)
Spec == Init /\ [][Next]_x
=============================================================================
