------------------------------- MODULE Numbers -------------------------------
(* E8: the AUTOSAR numeric lexical forms over a symbolic digit alphabet and their integer value (for values   *)
(* below 2^31: TLC's integers are 32 bit), for the interpretation functions parse_integer::<W>, parse_float     *)
(* and parse_bool.  Generation of all texts up to MaxLen symbols with the expected result per requested width; *)
(* judgement of the records the real library produced.                                                          *)
EXTENDS Integers, Sequences, FiniteSets, TLC, Json, IOUtils

CONSTANTS Mode, MaxLen,
          Full      \* TRUE: the float alphabet also has "E" and "+"
VARIABLE x

\* "EACUTE": a two-byte character (no text containing it is in a lexical form; the interpretation must still return nothing)
Sym == {"0", "1", "7", "8", "9", "a", "f", "x", "b", "+", "-", "EACUTE"}
DecVal(c) == CASE c = "0" -> 0 [] c = "1" -> 1 [] c = "5" -> 5 [] c = "7" -> 7 [] c = "8" -> 8 [] c = "9" -> 9 [] OTHER -> -1
HexVal(c) == CASE c = "a" -> 10 [] c = "b" -> 11 [] c = "f" -> 15 [] OTHER -> DecVal(c)
RECURSIVE FoldH(_, _, _)
FoldH(s, base, acc) == IF s = <<>> THEN acc ELSE FoldH(Tail(s), base, acc * base + HexVal(Head(s)))
AllIn(s, ok(_)) == \A i \in 1..Len(s) : ok(s[i])
IsDec(c) == DecVal(c) >= 0
IsHex(c) == HexVal(c) >= 0
IsOct(c) == c \in {"0", "1", "5", "7"}
IsBin(c) == c \in {"0", "1"}
Drop(s, k) == SubSeq(s, k + 1, Len(s))
\* the lexical forms: [ok, v]
Form(s) ==
  IF s = <<"0">> THEN [ok |-> TRUE, v |-> 0]
  ELSE IF Len(s) >= 3 /\ s[1] = "0" /\ s[2] = "x" /\ AllIn(Drop(s, 2), IsHex) THEN [ok |-> TRUE, v |-> FoldH(Drop(s, 2), 16, 0)]
  ELSE IF Len(s) >= 3 /\ s[1] = "0" /\ s[2] = "b" /\ AllIn(Drop(s, 2), IsBin) THEN [ok |-> TRUE, v |-> FoldH(Drop(s, 2), 2, 0)]
  ELSE IF Len(s) >= 2 /\ s[1] = "0" /\ AllIn(Drop(s, 1), IsOct) THEN [ok |-> TRUE, v |-> FoldH(Drop(s, 1), 8, 0)]
  ELSE LET sign == IF s # <<>> /\ s[1] = "-" THEN -1 ELSE 1
           body == IF s # <<>> /\ s[1] \in {"+", "-"} THEN Drop(s, 1) ELSE s IN
       IF body # <<>> /\ body[1] \in {"1", "5", "7", "8", "9"} /\ AllIn(body, IsDec) THEN [ok |-> TRUE, v |-> sign * FoldH(body, 10, 0)]
       ELSE [ok |-> FALSE, v |-> 0]
Width == [i8 |-> <<-128, 127>>, u8 |-> <<0, 255>>, i16 |-> <<-32768, 32767>>, u16 |-> <<0, 65535>>,
          i32 |-> <<-2147483647 - 1, 2147483647>>, u32 |-> <<0, 2147483647>>, i64 |-> <<-2147483647 - 1, 2147483647>>, u64 |-> <<0, 2147483647>>]
\* (u32 / i64 / u64: every value reachable with MaxLen <= 6 symbols is far below 2^31, so the upper bounds above never bind)
Fits(w, v) == Width[w][1] <= v /\ v <= Width[w][2]
Expect(s) == LET f == Form(s) IN [w \in DOMAIN Width |-> IF f.ok /\ Fits(w, f.v) THEN <<f.v>> ELSE <<>>]
RECURSIVE Cat(_)
Cat(s) == IF s = <<>> THEN "" ELSE (IF Head(s) = "EACUTE" THEN "{c3}{a9}" ELSE Head(s)) \o Cat(Tail(s))
Texts == UNION {[1..n -> Sym] : n \in 1..MaxLen}

\* ---------------------------------------------------------------- the numerical (float) forms and the boolean form
\* [+-]? ( [0-9] | [1-9][0-9]+ ) ( . [0-9]+ )? ( [eE] [+-]? [0-9]+ )?  |  INF | -INF | NaN      value = mantissa * 10^exponent
FSym == {"0", "1", "5", ".", "e", "-"} \cup (IF Full THEN {"E", "+"} ELSE {})
FTokens == {<<"INF">>, <<"-INF">>, <<"NaN">>, <<"true">>, <<"false">>, <<"+INF">>, <<"TRUE">>, <<"nan">>,
            \* explicit plus signs and the capital exponent marker (in every tier)
            <<"+", "5">>, <<"+", "0">>, <<"1", "e", "+", "5">>, <<"+", "1", ".", "5">>, <<"1", "E", "5">>, <<"1", "E", "+", "1">>, <<"-", "1", "E", "-", "1">>,
            <<"+", "1", ".", "5", "e", "+", "1">>, <<"5", ".", "0", "E", "-", "1">>}
\* (length 5 in both tiers; the thorough tier has the larger alphabet)
FTexts == UNION {[1..n -> FSym] : n \in 1..5} \cup FTokens
IsD(c) == c \in {"0", "1", "5"}
RECURSIVE DPrefix(_)
DPrefix(s) == IF s # <<>> /\ IsD(Head(s)) THEN 1 + DPrefix(Tail(s)) ELSE 0
RECURSIVE Norm(_, _)
Norm(m, e) == IF m = 0 THEN <<0, 0>> ELSE IF m % 10 = 0 THEN Norm(m \div 10, e + 1) ELSE <<m, e>>
FVal(t, neg, m, e) == [t |-> t, neg |-> neg, m |-> m, e |-> e]
FNone == [ok |-> FALSE, v |-> FVal("none", FALSE, 0, 0)]
FForm(s) ==
  IF s = <<"INF">> THEN [ok |-> TRUE, v |-> FVal("inf", FALSE, 0, 0)]
  ELSE IF s = <<"-INF">> THEN [ok |-> TRUE, v |-> FVal("inf", TRUE, 0, 0)]
  ELSE IF s = <<"NaN">> THEN [ok |-> TRUE, v |-> FVal("nan", FALSE, 0, 0)]
  ELSE IF s \in {<<"true">>, <<"false">>, <<"+INF">>, <<"TRUE">>, <<"nan">>} THEN FNone
  ELSE
  LET sgn == IF s # <<>> /\ s[1] \in {"+", "-"} THEN 1 ELSE 0
      neg == s # <<>> /\ s[1] = "-"
      b == Drop(s, sgn)
      ip == DPrefix(b)
      afterI == Drop(b, ip)
      hasDot == afterI # <<>> /\ afterI[1] = "."
      fp == IF hasDot THEN DPrefix(Drop(afterI, 1)) ELSE 0
      afterF == IF hasDot THEN Drop(afterI, 1 + fp) ELSE afterI
      hasE == afterF # <<>> /\ afterF[1] \in {"e", "E"}
      eb == IF hasE THEN Drop(afterF, 1) ELSE <<>>
      esgn == IF eb # <<>> /\ eb[1] \in {"+", "-"} THEN 1 ELSE 0
      eneg == eb # <<>> /\ eb[1] = "-"
      ed == Drop(eb, esgn)
      ok == /\ ip >= 1 /\ (ip = 1 \/ b[1] # "0") /\ (hasDot => fp >= 1)
            /\ (hasE => (ed # <<>> /\ AllIn(ed, IsD))) /\ (~hasE => afterF = <<>>)
      mant == FoldH(SubSeq(b, 1, ip) \o (IF hasDot THEN SubSeq(afterI, 2, 1 + fp) ELSE <<>>), 10, 0)
      ex == (IF hasE THEN (IF eneg THEN -1 ELSE 1) * FoldH(ed, 10, 0) ELSE 0) - fp
      nm == Norm(mant, ex) IN
  \* far from overflow and underflow only: |exponent| <= 300 with at most 6 mantissa digits
  IF ok /\ Len(ed) <= 3 /\ ex >= -300 /\ ex <= 300 THEN [ok |-> TRUE, v |-> FVal("num", neg, nm[1], nm[2])] ELSE FNone
\* the boolean form
BoolOf(txt) == CASE txt = "true" -> <<"true">> [] txt = "1" -> <<"true">> [] txt = "false" -> <<"false">> [] txt = "0" -> <<"false">> [] OTHER -> <<>>

\* ---------------------------------------------------------------- strings with every escapable character
EscSym == {"&", "<", ">", "'", "\"", "a", " "}
StrTexts == UNION {[1..n -> EscSym] : n \in 1..(MaxLen - 1)}

NoInt == [w \in DOMAIN Width |-> <<>>]
Inputs == {[kind |-> "int", s |-> s] : s \in Texts} \cup {[kind |-> "float", s |-> s] : s \in FTexts} \cup {[kind |-> "str", s |-> s] : s \in StrTexts}
Line(i) ==
  LET txt == Cat(i.s) IN
  CASE i.kind = "int" -> [kind |-> "int", text |-> txt, inform |-> Form(i.s).ok, exp |-> Expect(i.s), finform |-> FALSE, fexp |-> FNone.v, bexp |-> BoolOf(txt)]
    [] i.kind = "float" -> [kind |-> "float", text |-> txt, inform |-> (Form(i.s).ok /\ AllIn(i.s, LAMBDA c : c \in {"0", "1", "5", "+", "-"})),
                            exp |-> IF AllIn(i.s, LAMBDA c : c \in {"0", "1", "5", "+", "-"}) THEN Expect(i.s) ELSE NoInt,
                            finform |-> (FForm(i.s).ok /\ ~(Len(i.s) >= 2 /\ i.s[1] = "0" /\ IsD(i.s[2]))), fexp |-> FForm(i.s).v, bexp |-> BoolOf(txt)]
    [] OTHER -> [kind |-> "str", text |-> txt, inform |-> FALSE, exp |-> NoInt, finform |-> FALSE, fexp |-> FNone.v, bexp |-> <<>>]

\* ---------------------------------------------------------------- judgement
ASSUME Mode # "judge" \/ TLCSet(12, ndJsonDeserialize(IOEnv.RESULTS))
Log == TLCGet(12)
\* record: [text, inform (text is in a lexical form), exp (per width: <<>> or <<v>>), got (per width: <<>> or <<v>>), kind]
ParseExact(r) == (r.kind = "int" /\ r.inform) => \A w \in DOMAIN Width : r.got[w] = r.exp[w]
FloatExact(r) == /\ (r.kind \in {"int", "float"} /\ r.inform /\ r.exp.i64 # <<>>) => r.fgot = r.exp.i64
                 /\ (r.kind = "float" /\ r.finform) => (r.fcanon.t = r.fexp.t /\ r.fcanon.neg = r.fexp.neg /\ r.fcanon.m = r.fexp.m /\ r.fcanon.e = r.fexp.e)
\* the boolean interpretation: of every text in some lexical form, exactly true / false / 1 / 0 are booleans
BoolExact(r) == (r.kind \in {"int", "float"} /\ (r.inform \/ r.finform \/ r.bexp # <<>>)) => r.bool = r.bexp
\* no interpretation ends in a panic, whatever the text
NoPanic(r) == ~r.panic
\* kind "fmt": value -> text -> value; kind "str": string -> attribute value and element text of a written document -> strict load -> string
RoundTrip(r) == (r.kind \in {"fmt", "str"}) => r.same
Judge(j) == LET r == Log[j] IN
            /\ IF ParseExact(r) THEN TRUE ELSE PrintT(<<"V", ToJson([step |-> j, pred |-> "ParseExact", prop |-> "C20", r |-> r])>>)
            /\ IF FloatExact(r) THEN TRUE ELSE PrintT(<<"V", ToJson([step |-> j, pred |-> "FloatExact", prop |-> "C20", r |-> r])>>)
            /\ IF RoundTrip(r) THEN TRUE ELSE PrintT(<<"V", ToJson([step |-> j, pred |-> "FormatParse", prop |-> "C20", r |-> r])>>)
            /\ IF BoolExact(r) THEN TRUE ELSE PrintT(<<"V", ToJson([step |-> j, pred |-> "BoolExact", prop |-> "C20", r |-> r])>>)
            /\ IF NoPanic(r) THEN TRUE ELSE PrintT(<<"V", ToJson([step |-> j, pred |-> "NoPanic", prop |-> "C20", r |-> r])>>)

Init == CASE Mode = "gen" -> x \in Inputs /\ PrintT(<<"I", ToJson(Line(x))>>)
          [] OTHER -> x = 1 /\ (IF Len(Log) >= 1 THEN Judge(1) ELSE TRUE)
Next == Mode = "judge" /\ x < Len(Log) /\ x' = x + 1 /\ Judge(x + 1)
Spec == Init /\ [][Next]_x
=============================================================================
