import json,collections,glob,os,sys
f=max(glob.glob('/verif/work/cache/E1-*.json'), key=os.path.getmtime)
r=json.load(open(f))
for k,v in r['scenarios'].items(): print(k, {a:(b if a!='replay' else {x:y for x,y in b.items() if x!='ops'}) for a,b in v.items()})
cnt=collections.Counter((v['prop'],v['pred'],v['op'],v['kind'],tuple(v.get('kf',[]))) for v in r['verdicts'])
for k,v in sorted(cnt.items()): print(k,v)
print(r['tool_errors'][:3], r.get('model_candidates'), r['validated_steps'], r['wall'])
def short(a): return {k:v for k,v in a.items() if v not in ("",0,-1) and k!='val'} | ({'val':a['val']['v']} if a.get('val',{}).get('v') else {})
seen=set()
for v in r['verdicts']:
    key=(v['pred'],v['op'])
    if key in seen or v['kind'] in('unmodelled',) or v.get('kf'): continue
    seen.add(key)
    print(v['pred'], v['op'], v['kind'], 'res',v['res'], '\n   h=',[short(x) for x in v['h']], '\n   a=',short(v['a']))
print('design findings', [(d['pred'], d['witness'][:400]) for d in r['design_findings']][:5])
