#!/usr/bin/env python3
"""Driver of the /verif checks:  ./check setup | <Cxx> quick|thorough | <Cxx> --replay <file> | selftest"""
import hashlib, json, os, shutil, subprocess, sys, time

ROOT = os.path.dirname(os.path.dirname(os.path.abspath(__file__)))
# VERIF_REPO / VERIF_WORK are only used by tools/seedtest.py to try the checks on a scratch copy of the repository
REPO = os.environ.get("VERIF_REPO", "/repo")
WORK = os.environ.get("VERIF_WORK", os.path.join(ROOT, "work"))
EVID = os.path.join(ROOT, "evidence") if "VERIF_WORK" not in os.environ else os.path.join(WORK, "evidence")
HARNESS = os.path.join(ROOT, "harness")
if REPO != "/repo":
    # a private copy of the harness whose path dependencies point at the scratch repository
    HARNESS = os.path.join(WORK, "harness")
    os.makedirs(WORK, exist_ok=True)
    shutil.copytree(os.path.join(ROOT, "harness"), HARNESS, ignore=shutil.ignore_patterns("target"), dirs_exist_ok=True)
    ct = open(os.path.join(ROOT, "harness", "Cargo.toml")).read().replace("/repo/", REPO.rstrip("/") + "/")
    open(os.path.join(HARNESS, "Cargo.toml"), "w").write(ct)
VH = os.path.join(HARNESS, "target", "release", "vh")
sys.path.insert(0, os.path.join(ROOT, "tools"))


class ToolError(Exception):
    pass


# every VIOLATION line that has been printed counts, even if a later stage of the same check ends with a tool error
_NVIOL = [0]
_builtin_print = print


def print(*a, **k):
    if a and isinstance(a[0], str) and a[0].startswith("VIOLATION"):
        _NVIOL[0] += 1
    k.setdefault("flush", True)
    _builtin_print(*a, **k)


def log(*a):
    print(*a, file=sys.stderr, flush=True)


def seed():
    try:
        return int(os.environ.get("VERIF_SEED", "1"))
    except ValueError:
        return 1


def sh(cmd, timeout=3600, env=None, cwd=None, check=True, capture=True):
    e = dict(os.environ)
    e.update({"CARGO_NET_OFFLINE": "true"})
    if env:
        e.update(env)
    try:
        r = subprocess.run(cmd, shell=isinstance(cmd, str), cwd=cwd, env=e, timeout=timeout,
                           stdout=subprocess.PIPE if capture else None, stderr=subprocess.STDOUT if capture else None, text=True)
    except subprocess.TimeoutExpired:
        raise ToolError("timeout: %s" % (cmd,))
    if check and r.returncode != 0:
        raise ToolError("command failed (%d): %s\n%s" % (r.returncode, cmd, (r.stdout or "")[-4000:]))
    return r


def build():
    """(re)build the harness against the current /repo working tree, hooks on"""
    t = time.time()
    r = sh("cargo build --release --offline 2>&1", cwd=HARNESS, timeout=1800, check=False)
    if r.returncode != 0:
        raise ToolError("harness build failed:\n" + r.stdout[-6000:])
    log("[build] harness built in %.1fs" % (time.time() - t))


def tree_hash(extra=""):
    h = hashlib.sha256()
    roots = [os.path.join(REPO, "autosar-data", "src"), os.path.join(REPO, "autosar-data-specification", "src"),
             os.path.join(REPO, "autosar-data", "Cargo.toml"), os.path.join(ROOT, "spec"), os.path.join(ROOT, "tools"),
             os.path.join(HARNESS, "src"), os.path.join(ROOT, "known_findings.json")]
    for r in roots:
        if os.path.isfile(r):
            files = [r]
        else:
            files = []
            for d, _, fs in os.walk(r):
                if "__pycache__" in d:
                    continue
                files += [os.path.join(d, f) for f in fs if not f.endswith(".pyc")]
        for f in sorted(files):
            h.update(f.encode())
            h.update(open(f, "rb").read())
    h.update(extra.encode())
    return h.hexdigest()[:16]


def known_findings():
    p = os.path.join(ROOT, "known_findings.json")
    return json.load(open(p)) if os.path.exists(p) else {"findings": [], "fixed": []}


# ----------------------------------------------------------------------------------------- TLC
# -Xss must be on the java command line: the launcher sizes the main thread (which computes the initial states and evaluates
# the constant definitions) from its own arguments; a -Xss in JAVA_TOOL_OPTIONS only reaches the worker threads, and the main
# thread then overflows its 8 MB stack or not depending on how much of the evaluator the JIT has compiled (flaky empty runs)
def tlc_cmd(heap=None, xss="1g"):
    c = ["java", "-Xss" + xss, "-XX:+UseParallelGC"]
    if heap:
        c.append("-Xmx" + heap)
    return c + ["-cp", "/opt/veriftools/tla/tla2tools.jar:/opt/veriftools/tla/CommunityModules-deps.jar", "tlc2.TLC"]


def tlc_env(extra=None):
    e = {"JAVA_TOOL_OPTIONS": "-Xss1g"}
    if extra:
        e.update(extra)
    return e


def run_tlc(cwd, module, cfg, workers, timeout, env=None, cont=False, tlines=None, simulate=None, heap="8g", tag=""):
    """run TLC; lines starting with <<"T", are decoded and written to `tlines` (ndjson); returns stats + other tagged lines"""
    meta = os.path.join(cwd, "meta_" + os.path.splitext(os.path.basename(cfg))[0] + tag)
    shutil.rmtree(meta, ignore_errors=True)
    cmd = ["timeout", str(timeout), "java", "-Xmx" + heap, "-XX:+UseParallelGC", "-cp", "/opt/veriftools/tla/tla2tools.jar:/opt/veriftools/tla/CommunityModules-deps.jar",
           "tlc2.TLC"]
    # use the wrapper's classpath instead if the jar layout differs
    cmd = ["timeout", str(timeout)] + tlc_cmd(heap) + ["-workers", str(workers), "-metadir", meta, "-cleanup", "-noGenerateSpecTE",
           "-config", cfg]
    if cont:
        cmd.append("-continue")
    if simulate:
        cmd += ["-simulate", simulate]
    cmd.append(module)
    e = dict(os.environ)
    e.update(tlc_env(env))
    t0 = time.time()
    p = subprocess.Popen(cmd, cwd=cwd, env=e, stdout=subprocess.PIPE, stderr=subprocess.STDOUT, text=True, bufsize=1 << 20)
    out = {"tagged": [], "generated": 0, "distinct": 0, "errors": [], "log": [], "ntrans": 0, "fix": None}
    tf = open(tlines, "w") if tlines else None
    for line in p.stdout:
        if line.startswith('<<"T", '):
            try:
                inner = json.loads(line[len('<<"T", '):].rstrip()[:-2])
            except Exception:
                out["errors"].append("undecodable T line")
                continue
            out["ntrans"] += 1
            if tf:
                tf.write(inner + "\n")
            continue
        if line.startswith('<<"FIX", '):
            out["fix"] = json.loads(json.loads(line[len('<<"FIX", '):].rstrip()[:-2]))
            continue
        if line.startswith('<<"'):
            try:
                # <<"TAG", ... >>  : keep raw
                out["tagged"].append(line.rstrip())
            except Exception:
                pass
            continue
        s = line.rstrip()
        if len(out["log"]) < 4000:
            out["log"].append(s)
        if "states generated" in s and "distinct states found" in s and not s.startswith("Progress"):
            try:
                parts = s.replace(",", "").split()
                out["generated"] = int(parts[0])
                out["distinct"] = int(parts[3])
            except Exception:
                pass
        if s.startswith("Error:") or "Attempted to" in s or "Exception" in s:
            out["errors"].append(s)
    p.wait()
    if tf:
        tf.close()
    out["rc"] = p.returncode
    out["wall"] = time.time() - t0
    try:
        with open(os.path.join(cwd, os.path.splitext(os.path.basename(cfg))[0] + tag + ".log"), "w") as lf:
            lf.write("\n".join(out["log"]) + "\n" + "\n".join(out["tagged"][:200]))
    except Exception:
        pass
    if p.returncode == 124:
        out["errors"].append("TLC timeout")
    return out


def run_tlc_retry(*a, **kw):
    """TLC occasionally ends at once with a single state and exit code 0 when started right after another instance; retry once"""
    r = run_tlc(*a, **kw)
    for attempt in range(3):
        if not (r["rc"] == 0 and r["generated"] < 2):
            break
        log("[tlc] suspicious empty run, retrying: %s" % " | ".join(r["log"][-6:])[:600])
        try:
            with open(os.path.join(a[0], "empty_runs.log"), "a") as f:
                f.write("\n".join(r["log"]) + "\n=====\n")
        except Exception:
            pass
        time.sleep(3 * (attempt + 1))
        r = run_tlc(*a, **kw)
    return r


def decode_tagged(line):
    """<<"TAG", "json", ...>> -> (tag, [decoded strings])"""
    try:
        inner = line.strip()[2:-2]
        arr = json.loads("[" + inner + "]")
        return arr[0], arr[1:]
    except Exception:
        return None, []


def prep_spec(run, sub="core"):
    """copy the specification modules into the run directory and generate the table-derived module from the current tree"""
    d = os.path.join(run, "spec")
    shutil.rmtree(d, ignore_errors=True)
    shutil.copytree(os.path.join(ROOT, "spec", sub), d)
    schema = os.path.join(run, "schema.json")
    sh([VH, "extract", schema])
    import json2tla
    open(os.path.join(d, "SchemaData.tla"), "w").write(json2tla.module("SchemaData", "SchemaDataDef", json.load(open(schema))))
    if sub == "core":
        # the catalogue of loadable documents is part of the specification: TLC renders it, the harness loads these texts
        cfg = scenario_cfg(dict(fix="F0", depth=1, ops=[], elems=[], named=[], names=[]), False, False, []).replace("Depth = 1", "Depth = 0")
        open(os.path.join(d, "docs.cfg"), "w").write(cfg)
        r = run_tlc(d, "MC_fixtures.tla", "docs.cfg", 1, 600)
        docs = [decode_tagged(l)[1][0] for l in r["tagged"] if l.startswith('<<"DOCS"')]
        if not docs:
            raise RuntimeError("the document catalogue could not be rendered: %s" % (r["errors"] or r["log"][-5:]))
        path = os.path.join(run, "docs.json")
        open(path, "w").write(docs[0])
        os.environ["VH_DOCS"] = path
    return d


# ----------------------------------------------------------------------------------------- E1 core engine
CODE_KF = ["F7"]   # deviations of the code from the intended design that the spec can reproduce

def tla_set(xs):
    return "{" + ", ".join('"%s"' % x if isinstance(x, str) else str(x) for x in xs) + "}"


def scenario_cfg(sc, emit, check, kf, depth=None):
    c = dict(sc)
    lines = ["SPECIFICATION Spec", "VIEW View", "CHECK_DEADLOCK FALSE"]
    if check:
        lines.append("INVARIANT InvState")
    lines += ["CONSTANTS", "  Schema <- SchemaDef", '  InvalidNames = {"1x"}', "  MaxSuffix = 3",
              "  KF = " + tla_set(kf), "  NM = 2", "  Fix <- " + c["fix"], "  Depth = %d" % (depth or c["depth"]),
              "  Ops = " + tla_set(c["ops"]), "  ElemNames = " + tla_set(c["elems"]), "  NamedNames = " + tla_set(c["named"]),
              "  ItemNames = " + tla_set(c["names"]), "  PosSet = " + tla_set(c.get("pos", [])),
              "  FileNames = " + tla_set(c.get("files", ["f1", "f2"])), "  Vers = " + tla_set(c.get("vers", ["V50"])),
              "  Wild = %s" % ("TRUE" if c.get("wild") else "FALSE"), "  AttrValues <- AttrValuesDef",
              "  DocNames = " + tla_set(c.get("docs", [])),
              "  Emit = %s" % ("TRUE" if emit else "FALSE"), "  CheckProps = %s" % ("TRUE" if check else "FALSE")]
    return "\n".join(lines) + "\n"


ALL_EDIT = ["CreateSub", "CreateNamed", "Remove", "RemoveKind", "Rename", "SetRef", "Copy", "Move", "SetText", "RemoveText", "SetComment"]
SCENARIOS = {
    # name: fixture, depth (quick, thorough), op set, universes
    "edit1": dict(fix="F1", depth=2, tdepth=2, ops=ALL_EDIT, elems=["AR-PACKAGES", "ELEMENTS", "CATEGORY", "SYSTEM-SIGNAL-REF", "SHORT-NAME"],
                  named=["AR-PACKAGE", "SYSTEM-SIGNAL", "I-SIGNAL"], names=["a", "s", "b"], pos=[0, 1], wild=True),
    "refs": dict(fix="F2", depth=2, tdepth=2, ops=["Rename", "Move", "Remove", "SetRef", "SetText", "RemoveText", "CreateNamed"], elems=[],
                 named=["SYSTEM-SIGNAL"], names=["s", "s1", "b", "p"], pos=[], wild=False),
    "files": dict(fix="F3", depth=2, tdepth=2, ops=["CreateFile", "RemoveFile", "AddToFile", "RemoveFromFile", "Remove", "CreateNamed", "CreateSub", "Move", "Copy"],
                  elems=["ELEMENTS"], named=["AR-PACKAGE", "SYSTEM-SIGNAL"], names=["a", "d"], pos=[], wild=False, files=["f1", "f3"], vers=["V50"], ser=True),
    "merge": dict(fix="F5", depth=3, tdepth=3, ops=["Load", "CreateFile", "AddToFile", "RemoveFromFile", "RemoveFile", "Duplicate"], elems=[], named=[], names=["a"],
                  pos=[], wild=False, files=["f3"], vers=["V50"], docs=["pb", "pe", "pr", "pn", "po", "px", "pf", "cd", "cf", "dupk", "pv", "mt", "k1", "k2", "p2", "pi1", "pi2"], ser=True),
    "mixed": dict(fix="F6", depth=2, tdepth=3, ops=["SetText", "RemoveText", "CreateSub", "CreateNamed", "Remove", "RemoveKind", "Rename", "SetComment", "InsertText", "RemoveTextItem"],
                  elems=["TT"], named=["XREF-TARGET"], names=["x", "y"], pos=[0, 1], wild=False, ser=True),
    "report": dict(fix="F7", depth=2, tdepth=3, ops=["SetRef", "SetText", "RemoveText", "Rename", "Remove", "SetAttr", "RemoveAttr"], elems=[], named=[], names=["i", "m"],
                   pos=[], wild=False),
    "copy": dict(fix="F4", depth=2, tdepth=2, ops=["Copy", "Duplicate", "SetAttr", "RemoveAttr", "Rename", "Remove", "SetComment"],
                 elems=[], named=[], names=["a", "b"], pos=[0], wild=False, ser=True),
}


def e1_run(tier):
    """run the core engine once for this tree/tier/seed; results are cached by content hash"""
    key = tree_hash("E1|%s|%d|%s" % (tier, seed(), os.environ.get("VH_ONLY", "")))
    cache = os.path.join(WORK, "cache", "E1-%s.json" % key)
    if os.path.exists(cache):
        log("[E1] reusing engine run %s (same tree, spec, harness, seed, tier)" % key)
        return json.load(open(cache))
    t0 = time.time()
    build()
    run = os.path.join(WORK, "E1-" + tier)
    shutil.rmtree(run, ignore_errors=True)
    os.makedirs(run)
    spec = prep_spec(run)
    kf = known_findings()
    result = {"tier": tier, "seed": seed(), "scenarios": {}, "verdicts": [], "states": 0, "transitions": 0, "replayed": 0,
              "matched": 0, "mismatched": 0, "validated_steps": 0, "drift": 0, "unmodelled": 0, "samples": [], "ops": {},
              "design_states": 0, "design_transitions": 0, "design_findings": [], "tool_errors": []}
    only = os.environ.get("VH_ONLY")
    for name, sc in SCENARIOS.items():
        if only and name not in only.split(","):
            continue
        depth = sc["tdepth"] if tier == "thorough" else sc["depth"]
        sdir = os.path.join(run, name)
        os.makedirs(sdir)
        # (1) design check: intended design (KF = {}) satisfies every property predicate in every reachable state
        open(os.path.join(spec, name + "_design.cfg"), "w").write(scenario_cfg(sc, False, True, [], depth))
        # (thorough tier only: the single deviation that the specification can switch on, F7, changes the result of one kind of
        #  call and nothing else; the quick tier evaluates the same predicates on the generation run below)
        d = run_tlc_retry(spec, "MC_fixtures.tla", name + "_design.cfg", 16, 3000, cont=True) if CODE_KF and tier == "thorough" else \
            {"tagged": [], "rc": 0, "errors": [], "distinct": 0, "generated": 0, "wall": 0}
        fails = {}
        for tl in d["tagged"]:
            tag, rest = decode_tagged(tl)
            if tag in ("PROPFAIL", "APROPFAIL"):
                fails.setdefault(rest[0], rest[1] if len(rest) > 1 else "")
        if d["rc"] not in (0, 12, 13, 14) or any("Attempted" in e or "timeout" in e for e in d["errors"]):
            result["tool_errors"].append("design TLC %s: rc=%s %s" % (name, d["rc"], d["errors"][:3]))
        result["design_states"] += d["distinct"]
        result["design_transitions"] += d["generated"]
        result["design_findings"] += [{"scenario": name, "pred": k, "witness": v[:600]} for k, v in fails.items()]
        # (2) generation: the specification with the code's known deviations switched on; the property predicates are
        #     evaluated on every state and transition of it too (-continue): a failure there is a *candidate*, its
        #     witness history is executed on the real library and judged on the real observations (step 4)
        open(os.path.join(spec, name + "_gen.cfg"), "w").write(scenario_cfg(sc, True, True, CODE_KF, depth))
        trans = os.path.join(sdir, "trans.ndjson")
        g = run_tlc_retry(spec, "MC_fixtures.tla", name + "_gen.cfg", 16, 3000 if tier == "thorough" else 900, tlines=trans, cont=True)
        if g["rc"] not in (0, 12, 13, 14) or any("Attempted" in e or "timeout" in e for e in g["errors"]):
            result["tool_errors"].append("gen TLC %s: rc=%s %s" % (name, g["rc"], g["errors"][:3]))
        if g["ntrans"] < 10 or g["distinct"] < 2:
            result["tool_errors"].append("vacuous: gen TLC %s produced %d transitions" % (name, g["ntrans"]))
        result["states"] += g["distinct"]
        result["transitions"] += g["generated"]
        cands = {}
        for tl in g["tagged"]:
            tag, rest = decode_tagged(tl)
            if tag == "PROPFAIL":
                h = json.loads(rest[1])
                cands.setdefault(rest[0], []).append(h)
            elif tag == "APROPFAIL":
                w = json.loads(rest[1])
                cands.setdefault(rest[0], []).append(w["h"] + [w["a"]])
        import random
        rnd = random.Random(seed())
        ncand = 0
        cap = 40 if tier == "quick" else 400
        wk = set()
        wfile = os.path.join(sdir, "witness_in.ndjson")
        with open(wfile, "w") as f:
            for pred, hs in sorted(cands.items()):
                keys = set(json.dumps(h, sort_keys=True) for h in hs)
                ncand += len(keys)
                # keep histories none of whose proper prefixes fails the same predicate (first falsifying step)
                minimal = sorted(k for k in keys if not any(json.dumps(json.loads(k)[:j], sort_keys=True) in keys for j in range(0, len(json.loads(k)))))
                rnd.shuffle(minimal)
                for k in minimal[:cap]:
                    if k in wk:
                        continue
                    wk.add(k)
                    f.write(json.dumps({"fix": g["fix"] or [], "h": json.loads(k)}) + "\n")
        result["model_candidates"] = result.get("model_candidates", 0) + ncand
        sh([VH, "histories", "--in", wfile, "--out", os.path.join(sdir, "witness.ndjson"), "--models", "2", "--names", ",".join(sc["names"])] + (["--ser"] if sc.get("ser") else []), timeout=3600)
        # (3) replay on the real library
        json.dump(g["fix"] or [], open(os.path.join(sdir, "fix.json"), "w"))
        r = sh([VH, "replay", "--in", trans, "--fix", os.path.join(sdir, "fix.json"), "--out", sdir, "--models", "2", "--seed", str(seed()),
                "--sample", "150" if tier == "quick" else "3000", "--names", ",".join(sc["names"])] + (["--ser"] if sc.get("ser") else []), timeout=7200)
        rs = json.loads(r.stdout.strip().splitlines()[-1])
        result["replayed"] += rs["transitions"]
        result["matched"] += rs["matched"]
        result["mismatched"] += rs["mismatched"]
        for k, v in rs["ops"].items():
            result["ops"][k] = result["ops"].get(k, 0) + v
        result["scenarios"][name] = {"design": {k: d[k] for k in ("generated", "distinct", "wall", "rc")},
                                     "gen": {k: g[k] for k in ("generated", "distinct", "wall", "rc", "ntrans")}, "replay": rs}
        # (4) TLC evaluates the property predicates on real observations: all mismatching steps + a sample of matching ones
        from concurrent.futures import ThreadPoolExecutor
        trs = ("mismatch.ndjson", "witness.ndjson", "sample.ndjson")
        with ThreadPoolExecutor(max_workers=jobs(3, 7)) as ex:
            vs = list(ex.map(lambda tr: validate_trace(spec, os.path.join(sdir, tr), name + "/" + tr), trs))
        for v in vs:
            result["validated_steps"] += v["steps"]
            result["verdicts"] += v["verdicts"]
            result["drift"] += v["drift"]
            result["unmodelled"] += v["unmodelled"]
            result["tool_errors"] += v["tool_errors"]
        # a few written-out samples
        try:
            with open(trans) as f:
                for i, l in enumerate(f):
                    if i in (0, 7, 99) :
                        t = json.loads(l)
                        result["samples"].append({"scenario": name, "history": [x["op"] for x in t["h"]], "action": {k: v for k, v in t["a"].items() if v not in ("", 0, -1)}, "result": t["res"]})
        except Exception:
            pass
    # (5) implementation -> specification: seeded random histories on the real library, every step judged by TLC
    if not only or "driver" in only.split(","):
        ddir = os.path.join(run, "driver")
        os.makedirs(ddir)
        nchunks = 8 if tier == "quick" else 16
        per = 8 if tier == "quick" else 60
        length = 50 if tier == "quick" else 100
        def one(ci):
            tr = os.path.join(ddir, "drv%d.ndjson" % ci)
            r = sh([VH, "drive", "--out", tr, "--seed", str(seed() * 1000 + ci), "--n", str(per), "--len", str(length), "--ser-every", "3"], timeout=3600)
            return json.loads(r.stdout.strip().splitlines()[-1]), validate_trace(spec, tr, "driver/drv%d" % ci)
        from concurrent.futures import ThreadPoolExecutor
        with ThreadPoolExecutor(max_workers=jobs(8, 7)) as ex:
            outs = list(ex.map(one, range(nchunks)))
        dops = {}
        for ds, v in outs:
            result["driver_histories"] = result.get("driver_histories", 0) + ds["histories"]
            result["driver_steps"] = result.get("driver_steps", 0) + ds["steps"]
            for k, c in ds["ops"].items():
                dops.setdefault(k, [0, 0])
                dops[k][0] += c[0]
                dops[k][1] += c[1]
            result["validated_steps"] += v["steps"]
            result["verdicts"] += v["verdicts"]
            result["drift"] += v["drift"]
            result["unmodelled"] += v["unmodelled"]
            result["tool_errors"] += v["tool_errors"]
        result["driver_ops_tried_ok"] = dops
    result["wall"] = time.time() - t0
    os.makedirs(os.path.dirname(cache), exist_ok=True)
    json.dump(result, open(cache, "w"))
    return result


def jobs(n, gb):
    """how many JVMs of about `gb` GB may run side by side: never more than the memory that is free right now allows"""
    try:
        avail = [int(l.split()[1]) for l in open("/proc/meminfo") if l.startswith("MemAvailable")][0] / 1048576.0
    except Exception:
        avail = 16.0
    return max(1, min(n, int((avail - 4) // gb)))


def validate_trace(spec, trace, label, nm=2):
    """TLC evaluates every property predicate on every step of a recorded trace; returns the verdict lines"""
    out = {"steps": 0, "verdicts": [], "drift": 0, "unmodelled": 0, "tool_errors": []}
    if not os.path.exists(trace) or os.path.getsize(trace) == 0:
        return out
    lines = open(trace).read().splitlines()
    out["steps"] = len(lines)
    cfg = "trace.cfg"
    t = run_tlc(spec, "ArxmlTrace.tla", cfg, 1, 3600, env={"TRACE": trace, "JAVA_TOOL_OPTIONS": "-Xss1g -Dtlc2.tool.queue.IStateQueue=StateDeque"}, heap="8g",
                tag="_" + label.replace("/", "_").replace(".", "_"))
    consumed = not any(l.startswith('<<"NOTCONSUMED"') for l in t["tagged"]) and t["rc"] == 0
    if not consumed:
        out["tool_errors"].append("trace %s not consumed: rc=%s %s" % (label, t["rc"], (t["errors"] or t["log"][-3:])[:3]))
    for tl in t["tagged"]:
        tag, rest = decode_tagged(tl)
        if tag != "V":
            continue
        v = json.loads(rest[0])
        v["trace"] = trace
        # the mini-trace this step belongs to: the last reset line at or before it
        j = v["step"] - 1
        while j > 0 and json.loads(lines[j]).get("ev", {}).get("op") != "reset":
            j -= 1
        rl = json.loads(lines[j])
        v["fix"] = rl.get("fix", [])
        v["h"] = rl.get("h", [])
        v["a"] = json.loads(lines[v["step"] - 1]).get("ev")
        if v["kind"] == "drift":
            out["drift"] += 1
        elif v["kind"] == "unmodelled":
            out["unmodelled"] += 1
        out["verdicts"].append(v)
    return out


E1_PROPS = {"C03", "C04", "C05", "C06", "C10", "C11", "C12", "C13"}


def write_replay(prop, n, v):
    d = os.path.join(WORK, "replays")
    os.makedirs(d, exist_ok=True)
    p = os.path.join(d, "%s-%d.json" % (prop, n))
    json.dump({"property": prop, "predicate": v["pred"], "fix": v.get("fix"), "h": v.get("h"), "a": v.get("a"), "res": v.get("res"),
               "engine": "E1"}, open(p, "w"))
    return p


def api_probe():
    """C12 supplement: every public method taking index vectors / raw values / arbitrary handles, called with boundary arguments"""
    r = sh([VH, "probe"], timeout=1200, check=False)
    try:
        return json.loads(r.stdout.strip().splitlines()[-1])
    except Exception:
        return {"calls": 0, "panics": [{"fn": "vh probe", "arg": "", "panic": "the probe process ended with status %s" % r.returncode}]}


def check_e1(prop, tier):
    t0 = time.time()
    res = e1_run(tier)
    kf = known_findings()
    mine = [v for v in res["verdicts"] if v["kind"] in ("state", "action", "state-at-reset") and v["prop"] == prop]
    viol = 0
    known = {}
    seen = set()
    for v in mine:
        sig = (v["pred"], v["op"], json.dumps(v.get("a"), sort_keys=True), json.dumps(v.get("h"), sort_keys=True))
        if sig in seen:
            continue
        seen.add(sig)
        hit = [f for f in kf.get("findings", []) if f["id"] in v.get("kf", [])]
        if hit:
            known.setdefault(hit[0]["id"], hit[0])
            continue
        viol += 1
        if viol <= 25:
            path = write_replay(prop, viol, v)
            print("VIOLATION property=%s replay=%s" % (prop, path))
            log("   predicate %s fails at op %s %s" % (v["pred"], v["op"], json.dumps(v.get("a"))[:200]))
    if viol > 25:
        log("   ... and %d more violating steps (not listed)" % (viol - 25))
    probe = None
    if prop == "C12":
        probe = api_probe()
        fns = {}
        for p in probe["panics"]:
            fns.setdefault(p["fn"], p)
        for fn, p in sorted(fns.items()):
            viol += 1
            d = os.path.join(WORK, "replays")
            os.makedirs(d, exist_ok=True)
            path = os.path.join(d, "C12-probe-%d.json" % viol)
            json.dump({"property": "C12", "engine": "probe", "fn": fn, "arg": p["arg"], "panic": p["panic"]}, open(path, "w"))
            print("VIOLATION property=C12 replay=%s" % path)
            log("   %s(%s) panics: %s" % (fn, p["arg"], p["panic"][:120]))
    for fid, f in known.items():
        print("KNOWN-FINDING: property=%s %s" % (prop, f["what"]))
    if res["drift"]:
        print("DRIFT steps=%d (real library and specification disagree without any property predicate failing)" % res["drift"])
    ev = {"property_id": prop, "tier": tier, "seed": seed(), "level": "model_checking",
          "coverage": {"states": max(1, res["design_states"] + res["states"]), "transitions": max(1, res["design_transitions"] + res["transitions"]),
                       "traces_validated_against_impl": res["replayed"] + res.get("driver_histories", 0), "samples": res["samples"][:5] or ["none"],
                       "replayed_transitions_equal_to_spec": res["matched"], "replayed_transitions_different": res["mismatched"],
                       "full_observation_steps_evaluated_by_tlc": res["validated_steps"], "drift_steps": res["drift"],
                       "per_operation_replayed": res["ops"], "driver_histories": res.get("driver_histories", 0), "driver_steps": res.get("driver_steps", 0),
                       "driver_ops_tried_ok": res.get("driver_ops_tried_ok", {}), "unmodelled_steps": res["unmodelled"], "design_findings": res["design_findings"],
                       "known_findings_hit": sorted(known.keys()), "scenarios": res["scenarios"],
                       "api_probe_calls": (probe or {}).get("calls", 0)},
          "assumptions": ["TLC, CommunityModules Json reader", "harness projection (harness/src/core.rs)", "kind <-> ElementName concretisation"],
          "wall_s": round(time.time() - t0, 2), "violations": viol}
    os.makedirs(EVID, exist_ok=True)
    json.dump(ev, open(os.path.join(EVID, prop + ".json"), "w"), indent=1)
    if res["tool_errors"]:
        log("TOOL ERRORS: " + "; ".join(res["tool_errors"][:5]))
        return 1 if viol else 2
    return 1 if viol else 0


def replay_e1(prop, path):
    """re-execute a recorded violating history on the current tree and let TLC judge it again"""
    build()
    run = os.path.join(WORK, "E1-replay")
    shutil.rmtree(run, ignore_errors=True)
    os.makedirs(run)
    spec = prep_spec(run)
    r = json.load(open(path))
    h = list(r.get("h") or [])
    if r.get("a") and (not h or h[-1] != r["a"]):
        h.append(r["a"])
    inp = os.path.join(run, "in.ndjson")
    open(inp, "w").write(json.dumps({"fix": r.get("fix") or [], "h": h}) + "\n")
    sh([VH, "histories", "--in", inp, "--out", os.path.join(run, "trace.ndjson"), "--models", "2", "--ser"])
    v = validate_trace(spec, os.path.join(run, "trace.ndjson"), "replay")
    kf = known_findings()
    bad = 0
    for x in v["verdicts"]:
        if x["kind"] in ("state", "action", "state-at-reset") and x["prop"] == prop:
            if any(f["id"] in x.get("kf", []) for f in kf.get("findings", [])):
                print("KNOWN-FINDING: property=%s %s (step %d, %s)" % (prop, x["pred"], x["step"], x["op"]))
            else:
                bad += 1
                print("VIOLATION property=%s replay=%s" % (prop, path))
                log("   predicate %s fails at step %d op %s" % (x["pred"], x["step"], x["op"]))
    if v["tool_errors"]:
        log("TOOL ERRORS: " + "; ".join(v["tool_errors"]))
        return 1 if bad else 2
    if not bad:
        print("replay: property %s holds on this history (%d steps judged by TLC)" % (prop, v["steps"]))
    return 1 if bad else 0


# ----------------------------------------------------------------------------------------- E4 document engine (C01, C02, C08)
def tlc_lines(cwd, module, cfg, tag, out_path, workers=8, timeout=3000):
    """run a generator module; lines tagged `tag` are decoded (one JSON string each) and written to out_path"""
    meta = os.path.join(cwd, "meta_" + os.path.splitext(cfg)[0])
    p = subprocess.Popen(["timeout", str(timeout)] + tlc_cmd() + ["-workers", str(workers), "-metadir", meta, "-cleanup", "-noGenerateSpecTE", "-config", cfg, module],
                         cwd=cwd, stdout=subprocess.PIPE, stderr=subprocess.STDOUT, text=True, env=dict(os.environ, JAVA_TOOL_OPTIONS="-Xss1g"))
    n = 0
    st = {"generated": 0, "distinct": 0, "errors": []}
    pre = '<<"%s", ' % tag
    with open(out_path, "w") as f:
        for line in p.stdout:
            if line.startswith(pre):
                f.write(json.loads(line[len(pre):].rstrip()[:-2]) + "\n")
                n += 1
            elif "states generated" in line and "distinct" in line and line[:1].isdigit():
                parts = line.replace(",", "").split()
                st["generated"], st["distinct"] = int(parts[0]), int(parts[3])
            elif line.startswith("Error:") or "Attempted" in line:
                st["errors"].append(line.strip())
    p.wait()
    st["rc"] = p.returncode
    st["n"] = n
    return st


def e4_run(tier):
    key = tree_hash("E4|%s|%d" % (tier, seed()))
    cache = os.path.join(WORK, "cache", "E4-%s.json" % key)
    if os.path.exists(cache):
        log("[E4] reusing engine run %s" % key)
        return json.load(open(cache))
    t0 = time.time()
    build()
    run = os.path.join(WORK, "E4-" + tier)
    shutil.rmtree(run, ignore_errors=True)
    shutil.copytree(os.path.join(ROOT, "spec", "doc"), run)
    res = {"tier": tier, "modes": {}, "verdicts": [], "tool_errors": [], "inputs": 0, "states": 0, "samples": []}
    maxlen = 3 if tier == "quick" else 4
    for mode in ("docs", "defects", "strings", "markup", "deep"):
        cfg = "gen_%s.cfg" % mode
        open(os.path.join(run, cfg), "w").write("SPECIFICATION Spec\nCHECK_DEADLOCK FALSE\nCONSTANTS\n  Mode = \"%s\"\n  MaxLen = %d\n" % (mode, maxlen))
        inp = os.path.join(run, "in_%s.ndjson" % mode)
        g = tlc_lines(run, "DocGen.tla", cfg, "I", inp)
        if g["rc"] != 0 or g["n"] == 0:
            res["tool_errors"].append("DocGen %s: rc=%s n=%d %s" % (mode, g["rc"], g["n"], g["errors"][:2]))
            continue
        res["states"] += g["distinct"]
        out = os.path.join(run, "res_%s.ndjson" % mode)
        if mode == "deep":
            # one process per input, default main-thread stack size: a crash of the process is the outcome "abort"
            with open(out, "w") as fo:
                for i, l in enumerate(open(inp)):
                    one_in = os.path.join(run, "deep_%d.ndjson" % i)
                    one_out = os.path.join(run, "deep_%d.out" % i)
                    open(one_in, "w").write(l)
                    r = sh([VH, "load", "--in", one_in, "--out", one_out, "--stack-mb", "8"], check=False, timeout=600)
                    if r.returncode == 0 and os.path.exists(one_out) and os.path.getsize(one_out) > 0:
                        fo.write(open(one_out).read())
                    else:
                        d = json.loads(l)
                        dead = {"t": "abort", "k": "", "line": 0, "msg": "process ended with status %s" % r.returncode, "warn": [], "d": "", "proj": "",
                                "rt": {"t": "none", "d2": "", "s1": "", "s2": ""}}
                        fo.write(json.dumps({"id": d["id"], "kind": "deep", "cls": d["cls"], "nlines": 2, "len": len(d["text"]), "strict": dead,
                                             "lenient": dead, "check": {"t": "ok", "v": True}, "exp": "", "text": ""}) + "\n")
        else:
            extra = ["--prefixes", "--subst", "20" if tier == "quick" else "200", "--seed", str(seed())] if mode == "docs" else []
            sh([VH, "load", "--in", inp, "--out", out] + extra, timeout=3600)
        nrec = sum(1 for _ in open(out))
        res["inputs"] += nrec
        t = run_tlc(run, "DocTrace.tla", "trace.cfg", 1, 3600, env={"RESULTS": out}, heap="12g", tag="_" + mode)
        consumed = not any(l.startswith('<<"NOTCONSUMED"') for l in t["tagged"]) and t["rc"] == 0
        if not consumed:
            res["tool_errors"].append("DocTrace %s not consumed: rc=%s %s" % (mode, t["rc"], (t["errors"] or t["log"][-3:])[:3]))
        nv = 0
        for tl in t["tagged"]:
            tag, rest = decode_tagged(tl)
            if tag == "V":
                v = json.loads(rest[0])
                v["mode"] = mode
                res["verdicts"].append(v)
                nv += 1
        res["modes"][mode] = {"generated_by_tlc": g["n"], "records": nrec, "failing_predicates": nv}
        with open(out) as f:
            for i, l in enumerate(f):
                if i in (0, 17):
                    r = json.loads(l)
                    res["samples"].append({"mode": mode, "kind": r["kind"], "cls": r["cls"], "text": r["text"][:160], "strict": r["strict"]["t"], "lenient": r["lenient"]["t"]})
    res["wall"] = time.time() - t0
    os.makedirs(os.path.dirname(cache), exist_ok=True)
    json.dump(res, open(cache, "w"))
    return res


def e4_kf_match(v, findings):
    for f in findings:
        if f.get("engine") != "E4":
            continue
        if f.get("pred") and f["pred"] != v["pred"]:
            continue
        if f.get("kind") and f["kind"] != v["kind"]:
            continue
        if f.get("strict_t") and f["strict_t"] != v["strict"]["t"]:
            continue
        if f.get("text_contains") and f["text_contains"] not in v.get("text", ""):
            continue
        return f
    return None


def check_e4(prop, tier):
    t0 = time.time()
    res = e4_run(tier)
    kf = known_findings().get("findings", [])
    viol = 0
    known = {}
    for v in res["verdicts"]:
        if v["prop"] != prop:
            continue
        f = e4_kf_match(v, kf)
        if f:
            known[f["id"]] = f
            continue
        viol += 1
        if viol <= 20:
            d = os.path.join(WORK, "replays")
            os.makedirs(d, exist_ok=True)
            path = os.path.join(d, "%s-%d.json" % (prop, viol))
            json.dump({"property": prop, "engine": "E4", "predicate": v["pred"], "kind": v["kind"], "cls": v["cls"], "text": v.get("text", ""), "id": v["id"]}, open(path, "w"))
            print("VIOLATION property=%s replay=%s" % (prop, path))
            log("   predicate %s fails on a %s/%s input: strict=%s %s lenient=%s text=%r" % (v["pred"], v["kind"], v["cls"], v["strict"]["t"], v["strict"]["k"], v["lenient"]["t"], v.get("text", "")[:80]))
    for fid, f in known.items():
        print("KNOWN-FINDING: property=%s %s" % (prop, f["what"]))
    ev = {"property_id": prop, "tier": tier, "seed": seed(), "level": "model_checking",
          "coverage": {"states": max(1, res["states"]), "transitions": max(1, res["states"]), "traces_validated_against_impl": res["inputs"],
                       "samples": res["samples"][:6] or ["none"], "modes": res["modes"], "known_findings_hit": sorted(known.keys()),
                       "explanation": "TLC enumerates abstract documents x rendering styles, documented defect injections, short symbol strings after structural prefixes and nesting depths (spec/doc/ArxmlDoc.tla, DocGen.tla); the harness loads each input strictly, leniently and through the header check; TLC evaluates the property predicates of spec/doc/DocTrace.tla on every result record"},
          "assumptions": ["the {hh} byte notation and its decoding in harness/src/doc.rs", "projection harness/src/doc.rs::proj", "TLC"],
          "wall_s": round(time.time() - t0, 2), "violations": viol}
    os.makedirs(EVID, exist_ok=True)
    json.dump(ev, open(os.path.join(EVID, prop + ".json"), "w"), indent=1)
    if res["tool_errors"]:
        log("TOOL ERRORS: " + "; ".join(res["tool_errors"][:5]))
        return 1 if viol else 2
    return 1 if viol else 0


def replay_e4(prop, path):
    build()
    r = json.load(open(path))
    run = os.path.join(WORK, "E4-replay")
    shutil.rmtree(run, ignore_errors=True)
    shutil.copytree(os.path.join(ROOT, "spec", "doc"), run)
    inp = os.path.join(run, "in.ndjson")
    open(inp, "w").write(json.dumps({"id": r.get("id"), "kind": r.get("kind", "raw"), "cls": r.get("cls", ""), "text": r.get("text", ""), "exp": ""}) + "\n")
    out = os.path.join(run, "res.ndjson")
    sh([VH, "load", "--in", inp, "--out", out])
    t = run_tlc(run, "DocTrace.tla", "trace.cfg", 1, 600, env={"RESULTS": out}, tag="_replay")
    bad = 0
    for tl in t["tagged"]:
        tag, rest = decode_tagged(tl)
        if tag == "V" and json.loads(rest[0])["prop"] == prop and json.loads(rest[0])["pred"] != "Faithful":
            bad += 1
    if bad:
        print("VIOLATION property=%s replay=%s" % (prop, path))
        return 1
    print("replay: property %s holds on this input" % prop)
    return 0


# ----------------------------------------------------------------------------------------- E2 lock engine (C15, C16)
SKIP_FNS = {"item_name", "xml_path", "add_to_file_restricted"}

def site_functions():
    """source line -> name of the enclosing function, for the files of the crate (decides what a failed timed acquisition does)"""
    import re
    m = {}
    base = os.path.join(REPO, "autosar-data", "src")
    for fn in os.listdir(base):
        if not fn.endswith(".rs"):
            continue
        cur = "?"
        for i, line in enumerate(open(os.path.join(base, fn)), 1):
            mm = re.match(r"\s*(?:pub(?:\(crate\))?\s+)?fn\s+([a-zA-Z0-9_]+)", line)
            if mm:
                cur = mm.group(1)
            m["%s:%d" % (fn, i)] = cur
    return m


def e2_programs(run):
    sh([VH, "conc-record", "--out", os.path.join(run, "progs.ndjson")], timeout=600)
    fns = site_functions()
    progs = {}
    for l in open(os.path.join(run, "progs.ndjson")):
        d = json.loads(l)
        steps = []
        for e in d["prog"]:
            if e["a"] == "acq":
                f = "noop" if not e["ok"] else ("skip" if fns.get(e["site"], "?") in SKIP_FNS else "abort")
                steps.append({"a": "acq", "l": e["l"], "m": e["m"], "k": e["k"], "f": f, "s": e["site"]})
            else:
                steps.append({"a": "rel", "l": e["l"], "m": e["m"], "k": "block", "f": "abort", "s": ""})
        # releases that belong to a failed (noop) acquisition do not exist; nothing to drop
        progs[d["op"]] = {"res": d["res"], "steps": steps}
    return progs


def e2_pairs(progs, maxlen=400):
    names = sorted(progs)
    pairs = []
    for i, a in enumerate(names):
        for b in names[i:]:
            la = {s["l"] for s in progs[a]["steps"] if not s["l"].startswith("N")}
            lb = {s["l"] for s in progs[b]["steps"] if not s["l"].startswith("N")}
            shared = la & lb
            if not shared:
                continue
            wa = any(s["m"] == "W" and s["l"] in shared for s in progs[a]["steps"])
            wb = any(s["m"] == "W" and s["l"] in shared for s in progs[b]["steps"])
            if not (wa or wb):
                continue
            pa = [s for s in progs[a]["steps"] if s["l"] in shared]
            pb = [s for s in progs[b]["steps"] if s["l"] in shared]
            if len(pa) * len(pb) > maxlen * maxlen:
                continue
            pairs.append({"a": a, "b": b, "locks": sorted(shared), "p": [pa, pb]})
    return pairs


def check_e2(prop, tier):
    import json2tla
    t0 = time.time()
    build()
    run = os.path.join(WORK, "E2-" + tier)
    shutil.rmtree(run, ignore_errors=True)
    shutil.copytree(os.path.join(ROOT, "spec", "locks"), run)
    tool_errors = []
    progs = e2_programs(run)
    pairs = e2_pairs(progs)
    json.dump(pairs, open(os.path.join(run, "pairs.json"), "w"))
    open(os.path.join(run, "LockData.tla"), "w").write(json2tla.module("LockData", "Pairs", pairs))
    g = run_tlc(run, "LockMC.tla", "lockmc.cfg", 16, 3000, heap="16g")
    if g["rc"] != 0 or g["distinct"] < 10:
        tool_errors.append("LockMC rc=%s %s" % (g["rc"], g["errors"][:3]))
    stuck = {}
    for tl in g["tagged"]:
        tag, rest = decode_tagged(tl)
        if tag == "STUCK":
            s = json.loads(rest[0])
            key = (s["a"], s["b"], s["s1"], s["s2"])
            if key not in stuck or len(s["sched"]) < len(stuck[key]["sched"]):
                stuck[key] = s
    res = {"pairs": len(pairs), "states": g["distinct"], "transitions": g["generated"], "stuck_candidates": len(stuck), "tool_errors": tool_errors}
    return res, stuck, pairs, run


def e2_run(tier):
    key = tree_hash("E2|%s|%d" % (tier, seed()))
    cache = os.path.join(WORK, "cache", "E2-%s.json" % key)
    if os.path.exists(cache):
        log("[E2] reusing engine run %s" % key)
        return json.load(open(cache))
    import random
    t0 = time.time()
    res, stuck, pairs, run = check_e2("C15", tier)
    fns = site_functions()
    rnd = random.Random(seed())
    # ---- C15: one confirmation run per (pair of blocked functions) class (thorough: up to 5)
    classes = {}
    for key2, s in stuck.items():
        cls = tuple(sorted([fns.get(s["s1"], s["s1"]), fns.get(s["s2"], s["s2"])]))
        classes.setdefault(cls, []).append(s)
    per = 1 if tier == "quick" else 5
    cand = []
    for cls, lst in sorted(classes.items()):
        lst = sorted(lst, key=lambda s: len(s["sched"]))
        for s in lst[:per]:
            cand.append({"id": "cand:%s|%s" % cls, "cls": list(cls), "ops": [s["a"], s["b"]], "schedule": s["sched"], "gate": pairs[s["pair"] - 1]["locks"]})
    # and per pair of operations with a stuck state on the model: its shortest witness schedules (of different classes first)
    bypair = {}
    for key2, s in stuck.items():
        bypair.setdefault((s["a"], s["b"]), []).append(s)
    perpair = 2 if tier == "quick" else 4
    for (a, b), lst in sorted(bypair.items()):
        lst = sorted(lst, key=lambda s: len(s["sched"]))
        seen_cls, pick = set(), []
        for s in lst:
            cls = tuple(sorted([fns.get(s["s1"], s["s1"]), fns.get(s["s2"], s["s2"])]))
            if cls not in seen_cls:
                seen_cls.add(cls)
                pick.append(s)
        # one witness per class of stuck state of this pair (at most 6), at least `perpair` schedules
        for s in (pick[:6] + [x for x in lst if x not in pick])[:max(perpair, min(6, len(pick)))]:
            cls = sorted([fns.get(s["s1"], s["s1"]), fns.get(s["s2"], s["s2"])])
            cand.append({"id": "pair:%s|%s" % (a, b), "cls": cls, "ops": [s["a"], s["b"]], "schedule": s["sched"], "gate": pairs[s["pair"] - 1]["locks"]})
    res["stuck_pairs"] = sorted("%s||%s" % k for k in bypair)
    # the classes of stuck states on the model, per pair of operations (deterministic: computed from the recorded lock programs)
    res["model_classes"] = {"%s||%s" % tuple(sorted(k)): sorted(set("|".join(sorted([fns.get(s["s1"], s["s1"]), fns.get(s["s2"], s["s2"])])) for s in lst)) for k, lst in bypair.items()}
    # plus seeded random schedules over conflicting pairs (no model behind them: real threads, real locks)
    nrand = 40 if tier == "quick" else 600
    for i in range(nrand):
        p = rnd.choice(pairs)
        n = len(p["p"][0]) + len(p["p"][1])
        sc = [rnd.choice([1, 2]) for _ in range(n)]
        cand.append({"id": "rand:%d" % i, "cls": [], "ops": [p["a"], p["b"]], "schedule": sc, "gate": p["locks"]})
    candcls = {c["id"] + "|" + json.dumps(c["schedule"]): c["cls"] for c in cand}
    cin = os.path.join(run, "c15_in.ndjson")
    with open(cin, "w") as f:
        for c in cand:
            f.write(json.dumps(c) + "\n")
    # the deadlocked runs leak their threads: run in chunks in separate processes
    outs = []
    chunk = 25
    lines = open(cin).read().splitlines()
    def runchunk(ci):
        a = os.path.join(run, "c15_in_%d.ndjson" % ci)
        b = os.path.join(run, "c15_out_%d.ndjson" % ci)
        open(a, "w").write("\n".join(lines[ci * chunk:(ci + 1) * chunk]) + "\n")
        r = sh([VH, "conc-sched", "--in", a, "--out", b], timeout=3600, check=False)
        return b if r.returncode == 0 else None
    from concurrent.futures import ThreadPoolExecutor
    with ThreadPoolExecutor(max_workers=6) as ex:
        bs = list(ex.map(runchunk, range((len(lines) + chunk - 1) // chunk)))
    dead = []
    nruns = 0
    for b in bs:
        if b is None:
            res["tool_errors"].append("conc-sched chunk failed")
            continue
        for l in open(b):
            d = json.loads(l)
            nruns += 1
            c = d["conc"]
            if c.get("stalled"):
                res["stalled_runs"] = res.get("stalled_runs", 0) + 1
                continue
            if c["deadlock"]:
                sites = sorted(x.get("blocked_at", x.get("at", "")) for x in c["blocked"])
                cls = sorted(fns.get(s, s) for s in sites)
                dead.append({"id": d["id"], "ops": c["ops"], "schedule": c["schedule"], "sites": sites, "cls": cls, "model_cls": candcls.get(d["id"] + "|" + json.dumps(c["schedule"]), [])})
    res["c15"] = {"classes": len(classes), "confirm_runs": nruns, "deadlocks": dead}
    # ---- C16: one-preemption schedules of every conflicting pair, judged by TLC against the sequential oracle
    stride = 4 if tier == "quick" else 1
    open(os.path.join(run, "conc_gen.cfg"), "w").write("SPECIFICATION Spec\nCHECK_DEADLOCK FALSE\nCONSTANTS\n  Mode = \"gen\"\n  Stride = %d\n" % stride)
    open(os.path.join(run, "conc_judge.cfg"), "w").write("SPECIFICATION Spec\nCHECK_DEADLOCK FALSE\nCONSTANTS\n  Mode = \"judge\"\n  Stride = 1\n")
    sin = os.path.join(run, "c16_gen.ndjson")
    g = tlc_lines(run, "Conc.tla", "conc_gen.cfg", "I", sin, workers=8)
    if g["rc"] != 0 or g["n"] == 0:
        res["tool_errors"].append("Conc gen rc=%s n=%s %s" % (g["rc"], g["n"], g["errors"][:2]))
    allsched = [json.loads(l) for l in open(sin)]
    # pairs that are already known to deadlock are left to C15
    deadpairs = {tuple(sorted(d["ops"])) for d in dead}
    # (also the pairs listed as deadlocking: a confirmation run may stall on a loaded machine)
    deadpairs |= {tuple(sorted(f["ops"])) for f in known_findings().get("findings", []) if f.get("engine") == "E2" and f.get("property") == "C15"}
    deadpairs |= {tuple(sorted(k.split("||"))) for k in res.get("stuck_pairs", [])}
    allsched = [s for s in allsched if tuple(sorted((s["a"], s["b"]))) not in deadpairs]
    cap = 1500 if tier == "quick" else 40000
    if len(allsched) > cap:
        rnd.shuffle(allsched)
        allsched = allsched[:cap]
    lines2 = [json.dumps({"id": "%s|%s|%d|%d" % (s["a"], s["b"], s["first"], s["k"]), "ops": [s["a"], s["b"]], "schedule": s["sched"], "gate": pairs[s["pair"] - 1]["locks"]}) for s in allsched]
    chunk2 = 100
    def runchunk2(ci):
        a = os.path.join(run, "c16_in_%d.ndjson" % ci)
        b = os.path.join(run, "c16_out_%d.ndjson" % ci)
        open(a, "w").write("\n".join(lines2[ci * chunk2:(ci + 1) * chunk2]) + "\n")
        r = sh([VH, "conc-sched", "--in", a, "--out", b], timeout=3600, check=False)
        return b if r.returncode == 0 else None
    with ThreadPoolExecutor(max_workers=6) as ex:
        bs2 = list(ex.map(runchunk2, range((len(lines2) + chunk2 - 1) // chunk2)))
    allout = os.path.join(run, "c16_out.ndjson")
    n16 = 0
    late_dead = 0
    with open(allout, "w") as fo:
        for b in bs2:
            if b is None:
                res["tool_errors"].append("conc-sched (C16) chunk failed")
                continue
            for l in open(b):
                d = json.loads(l)
                if d["conc"].get("stalled"):
                    res["stalled_runs"] = res.get("stalled_runs", 0) + 1
                    continue
                if d["conc"]["deadlock"]:
                    late_dead += 1
                    c = d["conc"]
                    sites = sorted(x.get("blocked_at", x.get("at", "")) for x in c["blocked"])
                    dead.append({"id": d["id"], "ops": c["ops"], "schedule": c["schedule"], "sites": sites, "cls": sorted(fns.get(s, s) for s in sites)})
                    continue
                # canon as a string keeps the judge cheap
                d["conc"]["canon"] = json.dumps(d["conc"]["canon"], sort_keys=True)
                for s in d["seq"]:
                    s["canon"] = json.dumps(s["canon"], sort_keys=True)
                fo.write(json.dumps(d) + "\n")
                n16 += 1
    j = run_tlc(run, "Conc.tla", "conc_judge.cfg", 1, 3600, env={"RESULTS": allout}, tag="_judge", heap="12g")
    if j["rc"] != 0:
        res["tool_errors"].append("Conc judge rc=%s %s" % (j["rc"], j["errors"][:2]))
    res["c16"] = {"runs": n16, "schedules_generated": g["n"], "deadlocked_runs": late_dead,
                  "verdicts": [json.loads(decode_tagged(l)[1][0]) for l in j["tagged"] if l.startswith('<<"V"')]}
    res["wall"] = time.time() - t0
    os.makedirs(os.path.dirname(cache), exist_ok=True)
    json.dump(res, open(cache, "w"))
    return res


def check_c15(tier):
    t0 = time.time()
    res = e2_run(tier)
    kf = [f for f in known_findings().get("findings", []) if f.get("engine") == "E2" and f.get("property") == "C15"]
    viol = 0
    known = {}
    seen = set()
    dump = {}
    for d in res["c15"]["deadlocks"]:
        # a known finding is a pair of operations that deadlocks (at whichever of its lock acquisitions the threads meet)
        cls = tuple(sorted(d["ops"]))
        dump.setdefault("||".join(cls), {"ops": list(cls), "sites": d["sites"], "functions": d["cls"]})
        hit = [f for f in kf if tuple(sorted(f.get("ops", []))) == cls]
        # the witness schedule came from a stuck state of the model: the listed finding explains it only if it lists that class of
        # stuck state (pair of functions holding / wanting the locks, computed on the model: independent of timing and machine load)
        mc = "|".join(d.get("model_cls") or [])
        if hit and (not mc or not hit[0].get("model_classes") or mc in hit[0]["model_classes"]):
            known[hit[0]["id"]] = hit[0]
            continue
        if (cls, mc) in seen:
            continue
        seen.add((cls, mc))
        viol += 1
        dd = os.path.join(WORK, "replays")
        os.makedirs(dd, exist_ok=True)
        path = os.path.join(dd, "C15-%d.json" % viol)
        json.dump(dict(d, property="C15", engine="E2"), open(path, "w"))
        print("VIOLATION property=C15 replay=%s" % path)
        log("   %s || %s: both threads blocked forever at %s (functions %s)" % (d["ops"][0], d["ops"][1], d["sites"], d["cls"]))
    if os.environ.get("VERIF_E2_DUMP"):
        for k2, v2 in dump.items():
            v2["model_classes"] = res.get("model_classes", {}).get(k2, [])
        json.dump(dump, open(os.environ["VERIF_E2_DUMP"], "w"), indent=1)
    for fid, f in sorted(known.items()):
        print("KNOWN-FINDING: property=C15 %s" % f["what"])
    ev = {"property_id": "C15", "tier": tier, "seed": seed(), "level": "model_checking",
          "coverage": {"states": max(1, res["states"]), "transitions": max(1, res["transitions"]), "traces_validated_against_impl": res["c15"]["confirm_runs"],
                       "samples": [{"ops": d["ops"], "blocked_at": d["sites"]} for d in res["c15"]["deadlocks"][:4]] or ["no deadlock"],
                       "operation_pairs": res["pairs"], "stuck_states_distinct_sites": res["stuck_candidates"], "deadlock_classes_on_model": res["c15"]["classes"],
                       "deadlocks_confirmed_on_real_threads": len(res["c15"]["deadlocks"]), "operation_pairs_with_a_stuck_state_on_the_model": len(res.get("stuck_pairs", [])),
                       "operation_pairs_deadlocked_on_real_threads": len(dump), "known_findings_hit": sorted(known.keys()), "exhaustive": True,
                       "explanation": "lock programs recorded from the current tree for 36 operations; every interleaving of every conflicting pair explored by TLC under the parking_lot reader-writer semantics (spec/locks/LockMC.tla); each class of stuck state is replayed with its witness schedule on real threads with the lock shim gating every event of the shared locks; seeded random schedules in addition"},
          "assumptions": ["the lock semantics of LockMC.tla (task-fair parking_lot RwLock)", "failure behaviour of timed acquisitions by enclosing function (abort / skip table)", "deadlock = every unfinished thread inside an untimed acquisition for 1.5 s without any lock event"],
          "wall_s": round(time.time() - t0, 2), "violations": viol}
    os.makedirs(EVID, exist_ok=True)
    json.dump(ev, open(os.path.join(EVID, "C15.json"), "w"), indent=1)
    if res["tool_errors"]:
        log("TOOL ERRORS: " + "; ".join(res["tool_errors"][:5]))
        return 1 if viol else 2
    return 1 if viol else 0


def check_c16(tier):
    t0 = time.time()
    res = e2_run(tier)
    kf = [f for f in known_findings().get("findings", []) if f.get("engine") == "E2" and f.get("property") == "C16"]
    viol = 0
    known = {}
    seen = set()
    if os.environ.get("VERIF_E2_DUMP16"):
        dump = {}
        for v in res["c16"]["verdicts"]:
            dump.setdefault("||".join(sorted(v["ops"])), {"ops": sorted(v["ops"]), "res": v["res"]})
        json.dump(dump, open(os.environ["VERIF_E2_DUMP16"], "w"), indent=1)
    for v in res["c16"]["verdicts"]:
        cls = tuple(sorted(v["ops"]))
        hit = [f for f in kf if tuple(sorted(f["ops"])) == cls]
        if hit:
            known[hit[0]["id"]] = hit[0]
            continue
        if cls in seen:
            continue
        seen.add(cls)
        viol += 1
        dd = os.path.join(WORK, "replays")
        os.makedirs(dd, exist_ok=True)
        path = os.path.join(dd, "C16-%d.json" % viol)
        json.dump(dict(v, property="C16", engine="E2"), open(path, "w"))
        print("VIOLATION property=C16 replay=%s" % path)
        log("   %s || %s returned %s: no sequential order of the same operations gives these results and this final state" % (v["ops"][0], v["ops"][1], v["res"]))
    for fid, f in known.items():
        print("KNOWN-FINDING: property=C16 %s" % f["what"])
    ev = {"property_id": "C16", "tier": tier, "seed": seed(), "level": "model_checking",
          "coverage": {"states": max(1, res["c16"]["schedules_generated"]), "transitions": max(1, res["c16"]["schedules_generated"]), "traces_validated_against_impl": res["c16"]["runs"],
                       "samples": [{"ops": v["ops"], "res": v["res"]} for v in res["c16"]["verdicts"][:4]] or [{"runs": res["c16"]["runs"]}],
                       "operation_pairs": res["pairs"], "known_findings_hit": sorted(known.keys()),
                       "explanation": "TLC (spec/locks/Conc.tla) enumerates the one-preemption schedules of every conflicting pair of recorded lock programs; each is executed on real threads under the gating lock shim; results and canonical final state are compared by TLC with the sequential runs of the same operations (all orders; operations that reported ParentElementLocked dropped)"},
          "assumptions": ["canonical state = serialized text of every file, sorted path index, reverse reference map, invalid reference count (harness/src/conc.rs::canon)", "pairs that deadlock are left to C15"],
          "wall_s": round(time.time() - t0, 2), "violations": viol}
    os.makedirs(EVID, exist_ok=True)
    json.dump(ev, open(os.path.join(EVID, "C16.json"), "w"), indent=1)
    if res["tool_errors"]:
        log("TOOL ERRORS: " + "; ".join(res["tool_errors"][:5]))
        return 1 if viol else 2
    return 1 if viol else 0


# ----------------------------------------------------------------------------------------- E3 grammar engine (C07, C17)
def e3_types(run, tier):
    """table facts of a seeded sample of element types (thorough: many more), with enumeration focus and versions"""
    import json2tla
    tj = os.path.join(run, "types.json")
    count = 300 if tier == "quick" else 2500
    sh([VH, "types", "--count", str(count), "--seed", str(seed()), "--out", tj], timeout=1800)
    d = json.load(open(tj))
    nver = 3 if tier == "quick" else 6
    types = {}
    for k, v in d["types"].items():
        kids = v["children"]
        valued = bool(v["cdenum"]) or any(a["items"] for a in v["attrs"])
        if (not kids and not valued) or not v["pathmask"]:
            continue
        # focus: children in nested groups, version-partial ones, duplicates by name, the first and the last ones (at most 7)
        names = [c["name"] for c in kids]
        score = []
        for i, c in enumerate(kids):
            s = 0
            if len(c["idx"]) > 1: s += 4
            if len(c["mask"]) < 21: s += 3
            if names.count(c["name"]) > 1: s += 5
            if c["mult"] == "Any": s += 1
            if i < 2 or i >= len(kids) - 1: s += 2
            score.append((-s, i))
        focus = sorted(i + 1 for _, i in sorted(score)[:7])
        pm = v["pathmask"]
        vs = sorted(set([pm[0], pm[len(pm) // 2], pm[-1]] if nver == 3 else [pm[(len(pm) - 1) * j // (nver - 1)] for j in range(nver)]))
        types[k] = {"mode": v["mode"], "children": [{"name": c["name"], "idx": c["idx"], "mask": c["mask"], "mult": c["mult"], "ckey": c["ckey"]} for c in kids],
                    "pair": v["pair"], "focus": focus, "vers": vs, "pathmask": pm,
                    "attrs": [{"name": a["name"], "mask": a["mask"], "items": a["items"]} for a in v["attrs"]], "cdenum": v["cdenum"]}
    open(os.path.join(run, "TypesData.tla"), "w").write(json2tla.module("TypesData", "TypesDataDef", types))
    return d, types


def e3_run(tier):
    key = tree_hash("E3|%s|%d" % (tier, seed()))
    cache = os.path.join(WORK, "cache", "E3-%s.json" % key)
    if os.path.exists(cache):
        log("[E3] reusing engine run %s" % key)
        return json.load(open(cache))
    t0 = time.time()
    build()
    run = os.path.join(WORK, "E3-" + tier)
    shutil.rmtree(run, ignore_errors=True)
    shutil.copytree(os.path.join(ROOT, "spec", "grammar"), run)
    res = {"tier": tier, "tool_errors": [], "mismatch": [], "cases": 0, "states": 0, "transitions": 0, "types": 0, "samples": [], "algodiff": 0,
           "warn_kinds": {}, "unbuildable": 0}
    d, types = e3_types(run, tier)
    res["types"] = len(types)
    res["total_types"] = d["total_types"]
    cfg = open(os.path.join(run, "grammar.cfg")).read().replace("MaxLen = 2", "MaxLen = %d" % (3 if tier == "quick" else 4))
    open(os.path.join(run, "grammar.cfg"), "w").write(cfg)
    inp = os.path.join(run, "cases.ndjson")
    g = run_tlc(run, "GrammarMC.tla", "grammar.cfg", 16, 3000, heap="12g")
    res["states"], res["transitions"] = g["distinct"], g["generated"]
    if g["rc"] != 0 or g["distinct"] < 2:
        res["tool_errors"].append("Grammar TLC rc=%s %s" % (g["rc"], g["errors"][:3]))
    with open(inp, "w") as f:
        for tl in g["tagged"]:
            tag, rest = decode_tagged(tl)
            if tag == "I":
                f.write(rest[0] + "\n")
            elif tag == "ALGODIFF":
                res["algodiff"] += 1
            elif tag == "INVALIDSTATE":
                res["tool_errors"].append("Grammar: exploration reached a state that is not Valid: " + rest[0][:200])
    out = os.path.join(run, "results.ndjson")
    r = sh([VH, "grammar", "--types", os.path.join(run, "types.json"), "--in", inp, "--out", out], timeout=7200)
    rs = json.loads(r.stdout.strip().splitlines()[-1])
    res["unbuildable"] = rs["unbuildable"]
    # dumb comparison of what the specification expects with what the library answered
    cases = {}
    for l in open(inp):
        c = json.loads(l)
        cases[(c["ty"], c["ver"], json.dumps(c["hist"]))] = c
    ok_warn = {"RequiredAttributeMissing"}
    for l in open(out):
        o = json.loads(l)
        c = cases.get((o["ty"], o["ver"], json.dumps(o["hist"])))
        if c is None:
            continue
        if not o.get("built") and o.get("why") == "path":
            continue
        res["cases"] += 1
        probs = []
        if not o["built"]:
            probs.append({"what": "a creation at a position the specification allows was refused", "why": o["why"]})
        else:
            avail = set()
            for e in c["exp"]:
                nm = e["name"]
                if e.get("avail", True):
                    avail.add(nm)
                ob = o["obs"].get(nm)
                if ob is None:
                    continue
                exp_set = e["set"]
                if sorted(ob["ok"]) != sorted(exp_set):
                    probs.append({"what": "positions accepting a creation differ", "child": nm, "expected": exp_set, "accepted": ob["ok"]})
                if ob.get("ckey") and e.get("ckey") and ob["ckey"] != e["ckey"]:
                    probs.append({"what": "a created sub element has another element type than the one the name has in this version", "child": nm, "expected": e["ckey"], "created": ob["ckey"]})
                exp_range = [min(exp_set), max(exp_set)] if exp_set else None
                got_range = ob["range"] if isinstance(ob["range"], list) else None
                if exp_range != got_range:
                    probs.append({"what": "reported insertion range differs", "child": nm, "expected": exp_range, "reported": ob["range"]})
            listed = {x[0]: x[1] for x in o["listed"]}
            if set(listed) != avail:
                probs.append({"what": "listed sub elements differ from those available in the version", "extra": sorted(set(listed) - avail), "missing": sorted(avail - set(listed))})
            for e in c["exp"]:
                if e["name"] in listed and listed[e["name"]] != bool(e["set"]):
                    probs.append({"what": "allowed flag differs", "child": e["name"], "expected": bool(e["set"]), "reported": listed[e["name"]]})
            for wk in o["warn"]:
                res["warn_kinds"][wk] = res["warn_kinds"].get(wk, 0) + 1
                if wk not in ok_warn:
                    probs.append({"what": "lenient reload of the built file complains", "warning": wk})
        if probs:
            res["mismatch"].append({"ty": o["ty"], "ver": o["ver"], "hist": o["hist"], "names": c["names"], "problems": probs[:4]})
        if len(res["samples"]) < 5 and res["cases"] % 997 == 1:
            res["samples"].append({"type": o["ty"], "version_bit": o["ver"], "children": c["names"], "expected": {e["name"]: e["set"] for e in c["exp"][:4]}})
    res["wall"] = time.time() - t0
    os.makedirs(os.path.dirname(cache), exist_ok=True)
    json.dump(res, open(cache, "w"))
    return res


def check_c17(tier):
    t0 = time.time()
    build()
    run = os.path.join(WORK, "E3c-" + tier)
    shutil.rmtree(run, ignore_errors=True)
    shutil.copytree(os.path.join(ROOT, "spec", "grammar"), run)
    tool_errors = []
    d, types = e3_types(run, tier)
    def cfg(mode):
        name = "compat_%s.cfg" % mode
        open(os.path.join(run, name), "w").write("SPECIFICATION Spec\nCHECK_DEADLOCK FALSE\nCONSTANTS\n  Mode = \"%s\"\n  SourcesPerItem = %d\n" % (mode, 1 if tier == "quick" else 2))
        return name
    inp = os.path.join(run, "ccases.ndjson")
    g = tlc_lines(run, "VersionCompat.tla", cfg("gen"), "I", inp, workers=8)
    if g["rc"] != 0 or g["n"] == 0:
        tool_errors.append("VersionCompat gen rc=%s n=%s %s" % (g["rc"], g["n"], g["errors"][:2]))
    out = os.path.join(run, "cres.ndjson")
    r = sh([VH, "compat", "--types", os.path.join(run, "types.json"), "--in", inp, "--out", out], timeout=7200)
    rs = json.loads(r.stdout.strip().splitlines()[-1])
    j = run_tlc(run, "VersionCompat.tla", cfg("judge"), 1, 3600, env={"RESULTS": out}, tag="_judge", heap="12g")
    if j["rc"] != 0:
        tool_errors.append("VersionCompat judge rc=%s %s" % (j["rc"], j["errors"][:2]))
    verdicts = [json.loads(decode_tagged(l)[1][0]) for l in j["tagged"] if l.startswith('<<"V"')]
    tableview = sum(1 for l in j["tagged"] if l.startswith('<<"TABLEVIEW"'))
    pre = sum(1 for l in open(out) if '"srcok":true' in l)
    kf = known_findings().get("findings", [])
    viol = 0
    known = {}
    for v in verdicts:
        rr = v["r"]
        hit = [f for f in kf if f.get("engine") == "E3c" and f.get("pred") == v["pred"] and f.get("kind", rr["kind"]) == rr["kind"]]
        if hit:
            known[hit[0]["id"]] = hit[0]
            continue
        viol += 1
        if viol <= 20:
            dd = os.path.join(WORK, "replays")
            os.makedirs(dd, exist_ok=True)
            path = os.path.join(dd, "C17-%d.json" % viol)
            json.dump(dict(rr, property="C17", predicate=v["pred"], engine="E3c"), open(path, "w"))
            print("VIOLATION property=C17 replay=%s" % path)
            log("   %s: type %s %s %s, version bit %s -> %s: errors=%s mask_has=%s relabelled_loads=%s set_version=%s" % (v["pred"], rr["ty"], rr["kind"], rr["item"], rr["sver"], rr["tver"], rr["nerr"], rr["maskhas"], rr["relabel_ok"], rr["setver_ok"]))
    for fid, f in known.items():
        print("KNOWN-FINDING: property=C17 %s" % f["what"])
    samples = []
    with open(out) as f:
        for i, l in enumerate(f):
            if i in (0, 300, 3000):
                samples.append(json.loads(l))
    ev = {"property_id": "C17", "tier": tier, "seed": seed(), "level": "model_checking",
          "coverage": {"states": max(1, g["distinct"]), "transitions": max(1, g["generated"]), "traces_validated_against_impl": rs["records"],
                       "samples": samples or ["none"], "items": rs["cases"], "unbuildable_items": rs["unbuildable"], "records_with_precondition": pre,
                       "loader_vs_table_semantics_disagreements": tableview, "element_types": len(types),
                       "explanation": "TLC enumerates every version-dependent child / attribute / enumeration value of the sampled element types from the table data and the source versions; the harness embeds each in a minimal document and, for all 21 target versions, records the compatibility check, the strict load of the relabelled text and set_version; TLC judges CompatExact and SetVersionExact on every record"},
          "assumptions": ["minimal documents are built through the editing API (E3 / C07 cover its validity)", "relabelling = replacing the schema file name in the serialized text", "TLC"],
          "wall_s": round(time.time() - t0, 2), "violations": viol}
    os.makedirs(EVID, exist_ok=True)
    json.dump(ev, open(os.path.join(EVID, "C17.json"), "w"), indent=1)
    if pre < 10:
        tool_errors.append("vacuous: only %d records satisfy the precondition" % pre)
    if tool_errors:
        log("TOOL ERRORS: " + "; ".join(tool_errors[:5]))
        return 1 if viol else 2
    return 1 if viol else 0


def check_c07(tier):
    t0 = time.time()
    res = e3_run(tier)
    kf = known_findings().get("findings", [])
    viol = 0
    known = {}
    for m in res["mismatch"]:
        hit = None
        for f in kf:
            if f.get("engine") == "E3" and all(any(f.get("what_contains", "") in p["what"] and f.get("child", p.get("child")) == p.get("child") for _ in [0]) for p in m["problems"]):
                hit = f
        if hit:
            known[hit["id"]] = hit
            continue
        viol += 1
        if viol <= 20:
            d = os.path.join(WORK, "replays")
            os.makedirs(d, exist_ok=True)
            path = os.path.join(d, "C07-%d.json" % viol)
            json.dump(dict(m, property="C07", engine="E3"), open(path, "w"))
            print("VIOLATION property=C07 replay=%s" % path)
            log("   type %s version bit %s children %s: %s" % (m["ty"], m["ver"], m["names"], json.dumps(m["problems"][0])[:220]))
    # part (b) on arbitrary editing histories: the core engine's EditsStayValid verdicts
    e1 = e1_run(tier)
    for v in e1["verdicts"]:
        if v["kind"] in ("state", "action") and v["prop"] == "C07":
            hit = [f for f in kf if f["id"] in v.get("kf", [])]
            if hit:
                known[hit[0]["id"]] = hit[0]
                continue
            viol += 1
            if viol <= 25:
                print("VIOLATION property=C07 replay=%s" % write_replay("C07", 100 + viol, v))
                log("   predicate %s fails at op %s %s" % (v["pred"], v["op"], json.dumps(v.get("a"))[:200]))
    res["tool_errors"] = res["tool_errors"] + e1["tool_errors"]
    for fid, f in known.items():
        print("KNOWN-FINDING: property=C07 %s" % f["what"])
    ev = {"property_id": "C07", "tier": tier, "seed": seed(), "level": "model_checking",
          "coverage": {"states": max(1, res["states"]), "transitions": max(1, res["transitions"]), "traces_validated_against_impl": res["cases"],
                       "samples": res["samples"] or ["none"], "element_types": res["types"], "of_total_types": res.get("total_types", 0),
                       "model_level_algorithm_differences": res["algodiff"], "core_engine_histories_with_reload": e1.get("driver_histories", 0), "core_engine_steps_judged": e1["validated_steps"], "reload_warning_kinds": res["warn_kinds"], "unbuildable_cases": res["unbuildable"],
                       "explanation": "TLC explores (element type, version, child sequence) states of spec/grammar/Grammar.tla built from the tables of the current tree, checks the transcribed range algorithm against the declarative InsertPositions on the model, and emits for every state the expected position set of every child; the harness builds each state on a real element and reports ranges, accepted positions, the allowed list and the warnings of a lenient reload"},
          "assumptions": ["Grammar.tla's reading of the tables (sequence order by index vector, exclusive choice, multiplicity in sequence/choice containers)", "TLC"],
          "wall_s": round(time.time() - t0, 2), "violations": viol}
    os.makedirs(EVID, exist_ok=True)
    json.dump(ev, open(os.path.join(EVID, "C07.json"), "w"), indent=1)
    if res["tool_errors"]:
        log("TOOL ERRORS: " + "; ".join(res["tool_errors"][:5]))
        return 1 if viol else 2
    return 1 if viol else 0


# ----------------------------------------------------------------------------------------- E6 sort engine (C14)
def check_c14(tier):
    t0 = time.time()
    build()
    run = os.path.join(WORK, "E6-" + tier)
    shutil.rmtree(run, ignore_errors=True)
    shutil.copytree(os.path.join(ROOT, "spec", "sort"), run)
    tool_errors = []
    maxsize = 3 if tier == "quick" else 4
    def cfg(mode):
        name = "sort_%s.cfg" % mode
        open(os.path.join(run, name), "w").write("SPECIFICATION Spec\nCHECK_DEADLOCK FALSE\nCONSTANTS\n  Mode = \"%s\"\n  MaxSize = %d\n" % (mode, maxsize))
        return name
    # (1) design level: is the transcribed comparison a total preorder over the name universe?
    o = run_tlc(run, "SortOrder.tla", cfg("order"), 1, 600)
    cycles = [decode_tagged(l)[1][0] for l in o["tagged"] if l.startswith('<<"ORDER"')]
    if o["rc"] != 0:
        tool_errors.append("SortOrder order mode rc=%s %s" % (o["rc"], o["errors"][:2]))
    # (2) cases, (3) execution on the real library, (4) judgement by TLC
    inp = os.path.join(run, "in.ndjson")
    g = tlc_lines(run, "SortOrder.tla", cfg("gen"), "I", inp, workers=4)
    if g["rc"] != 0 or g["n"] == 0:
        tool_errors.append("SortOrder gen: rc=%s n=%s %s" % (g["rc"], g["n"], g["errors"][:2]))
    res = os.path.join(run, "res.ndjson")
    tr = os.path.join(run, "trace.ndjson")
    sh([VH, "sortcases", "--in", inp, "--out", res, "--trace", tr], timeout=3600)
    j = run_tlc(run, "SortOrder.tla", cfg("judge"), 1, 3600, env={"RESULTS": res}, tag="_judge")
    if j["rc"] != 0:
        tool_errors.append("SortOrder judge rc=%s %s" % (j["rc"], j["errors"][:2]))
    verdicts = [json.loads(decode_tagged(l)[1][0]) for l in j["tagged"] if l.startswith('<<"V"')]
    # the same sorts as E1-style traces: tree, index, reference and file predicates around every sort()
    spec = prep_spec(run)
    v1 = validate_trace(spec, tr, "sort/trace")
    tool_errors += v1["tool_errors"]
    kf = known_findings().get("findings", [])
    viol = 0
    for v in verdicts:
        viol += 1
        if viol <= 20:
            d = os.path.join(WORK, "replays")
            os.makedirs(d, exist_ok=True)
            path = os.path.join(d, "C14-%d.json" % viol)
            json.dump({"property": "C14", "engine": "E6", "predicate": v["pred"], "fam": v["fam"], "group": v["group"], "before": v["before"]}, open(path, "w"))
            print("VIOLATION property=C14 replay=%s" % path)
            log("   predicate %s fails: %s siblings %s sorted to %s (second sort %s)" % (v["pred"], v["fam"], v["before"], v["after"], v["after2"]))
    for x in v1["verdicts"]:
        if x["kind"] in ("state", "action") and x["op"] == "Sort" and not any(f["id"] in x.get("kf", []) for f in kf):
            viol += 1
            print("VIOLATION property=C14 replay=%s" % tr)
            log("   predicate %s (%s) turns false at a sort() step" % (x["pred"], x["prop"]))
    ncases = sum(1 for _ in open(res)) if os.path.exists(res) else 0
    samples = []
    if os.path.exists(res):
        with open(res) as f:
            for i, l in enumerate(f):
                if i in (0, 40, 200):
                    r = json.loads(l)
                    samples.append({"fam": r["fam"], "before": r["before"], "after": r["after"]})
    ev = {"property_id": "C14", "tier": tier, "seed": seed(), "level": "model_checking",
          "coverage": {"states": max(1, g["distinct"] + o["distinct"]), "transitions": max(1, g["generated"]), "traces_validated_against_impl": ncases,
                       "samples": samples or ["none"], "comparison_cycles_found_on_the_model": cycles, "sort_steps_judged_with_core_predicates": v1["steps"],
                       "max_siblings": maxsize, "exhaustive": True,
                       "explanation": "TLC checks the transcribed name comparison for totality over the name universe, enumerates every subset (size <= max) of named / BSW-keyed / mixed-kind siblings in every permutation; the harness builds and sorts each on the real library; TLC judges SortPermutesOnly, SortIdempotent, SortNeverFails, OrderIndependent and the core tree/index predicates around every sort()"},
          "assumptions": ["key extraction and subtree digests in harness/src/sortcases.rs", "TLC"],
          "wall_s": round(time.time() - t0, 2), "violations": viol}
    os.makedirs(EVID, exist_ok=True)
    json.dump(ev, open(os.path.join(EVID, "C14.json"), "w"), indent=1)
    if tool_errors:
        log("TOOL ERRORS: " + "; ".join(tool_errors[:5]))
        return 1 if viol else 2
    return 1 if viol else 0


# ----------------------------------------------------------------------------------------- E5 merge engine (C09)
def check_c09(tier):
    t0 = time.time()
    build()
    run = os.path.join(WORK, "E5-" + tier)
    shutil.rmtree(run, ignore_errors=True)
    shutil.copytree(os.path.join(ROOT, "spec", "merge"), run)
    tool_errors = []
    # families: two files with every split and sibling order; three files (an element that already has its own file set is merged again)
    # (files, sibling reordering, small, number of the file with the older version)
    fams = [(2, "TRUE", "FALSE", 0), (3, "FALSE", "TRUE", 0), (2, "FALSE", "TRUE", 1), (3, "FALSE", "TRUE", 2)] if tier == "quick" else \
           [(2, "TRUE", "FALSE", 0), (3, "TRUE", "TRUE", 0), (3, "FALSE", "FALSE", 0), (2, "TRUE", "FALSE", 1), (3, "TRUE", "TRUE", 1), (3, "TRUE", "TRUE", 3)]
    nfiles = 3
    def wcfg(mode, fam):
        name = "merge_%s.cfg" % mode
        open(os.path.join(run, name), "w").write("SPECIFICATION Spec\nCHECK_DEADLOCK FALSE\nCONSTANTS\n  Mode = \"%s\"\n  NFiles = %d\n  Reorder = %s\n  Small = %s\n  OldFile = %d\n" % ((mode,) + fam))
        return name
    wcfg("judge", fams[0])
    inp = os.path.join(run, "in.ndjson")
    g = {"distinct": 0, "generated": 0, "n": 0}
    with open(inp, "w") as fo:
        for k, fam in enumerate(fams):
            part = os.path.join(run, "in_fam%d.ndjson" % k)
            gg = tlc_lines(run, "Merge.tla", wcfg("gen", fam), "I", part, workers=8)
            if gg["rc"] != 0 or gg["n"] == 0:
                tool_errors.append("Merge gen %s rc=%s n=%s %s" % (fam, gg["rc"], gg["n"], gg["errors"][:2]))
            for kk in ("distinct", "generated", "n"):
                g[kk] += gg[kk]
            for l in open(part):
                d = json.loads(l)
                d["id"]["fam"] = k
                fo.write(json.dumps(d) + "\n")
            os.remove(part)
    # the judge reads its whole input: the cases go through the library and the judge in chunks (all load orders of a split stay together)
    CH = 6000
    chunks = []
    with open(inp) as f:
        buf = []
        for l in f:
            buf.append(l)
            if len(buf) == CH:
                chunks.append(buf); buf = []
        if buf:
            chunks.append(buf)
    nrec_total = [0]
    def one(k):
        cin = os.path.join(run, "in_%d.ndjson" % k)
        cout = os.path.join(run, "res_%d.ndjson" % k)
        open(cin, "w").writelines(chunks[k])
        sh([VH, "merge", "--in", cin, "--out", cout], timeout=3600)
        nrec_total[0] += sum(1 for _ in open(cout))
        jj = run_tlc(run, "Merge.tla", "merge_judge.cfg", 1, 3600, env={"RESULTS": cout}, tag="_judge%d" % k, heap="6g")
        os.remove(cout); os.remove(cin)
        return jj
    from concurrent.futures import ThreadPoolExecutor
    with ThreadPoolExecutor(max_workers=jobs(8, 7)) as ex:
        js = list(ex.map(one, range(len(chunks))))
    verdicts = []
    for k, j in enumerate(js):
        if j["rc"] != 0:
            tool_errors.append("Merge judge chunk %d rc=%s %s" % (k, j["rc"], j["errors"][:2]))
        verdicts += [json.loads(decode_tagged(l)[1][0]) for l in j["tagged"] if l.startswith('<<"V"')]
    # conflicting files: table facts -> cases and expectations (TLC) -> two loads on the real library -> judgement (TLC)
    import json2tla
    nfacts = 60 if tier == "quick" else 600
    fr = sh([VH, "splitfacts", "--count", str(nfacts)], timeout=600)
    fj = json.loads(fr.stdout.strip().splitlines()[-1])
    open(os.path.join(run, "SplitData.tla"), "w").write(json2tla.module("SplitData", "SplitDataDef", fj["facts"]))
    for mode in ("gen", "judge"):
        open(os.path.join(run, "split_%s.cfg" % mode), "w").write("SPECIFICATION Spec\nCHECK_DEADLOCK FALSE\nCONSTANTS\n  Mode = \"%s\"\n" % mode)
    sinp = os.path.join(run, "split_in.ndjson")
    sg = tlc_lines(run, "SplitConflict.tla", "split_gen.cfg", "I", sinp, workers=4)
    if sg["rc"] != 0 or sg["n"] == 0:
        tool_errors.append("SplitConflict gen rc=%s n=%s %s" % (sg["rc"], sg["n"], sg["errors"][:2]))
    sout = os.path.join(run, "split_res.ndjson")
    sr = json.loads(sh([VH, "splitrun", "--in", sinp, "--out", sout], timeout=3600).stdout.strip().splitlines()[-1])
    sj = run_tlc(run, "SplitConflict.tla", "split_judge.cfg", 1, 3600, env={"RESULTS": sout}, tag="_sjudge", heap="6g")
    if sj["rc"] != 0:
        tool_errors.append("SplitConflict judge rc=%s %s" % (sj["rc"], sj["errors"][:2]))
    sverdicts = [json.loads(decode_tagged(l)[1][0]) for l in sj["tagged"] if l.startswith('<<"V"')]
    if sr["records"] < 20:
        tool_errors.append("vacuous: only %d conflict records" % sr["records"])
    kf = [f for f in known_findings().get("findings", []) if f.get("engine") == "E5"]
    viol = 0
    known = {}
    for v in sverdicts:
        hit = [f for f in kf if v["pred"] in f.get("preds", []) and f.get("ty") in (None, v["r"]["ty"])]
        if hit:
            known[hit[0]["id"]] = hit[0]
            continue
        viol += 1
        if viol <= 20:
            dd = os.path.join(WORK, "replays")
            os.makedirs(dd, exist_ok=True)
            path = os.path.join(dd, "C09-split-%d.json" % viol)
            json.dump(dict(v["r"], property="C09", engine="E5", predicate=v["pred"]), open(path, "w"))
            print("VIOLATION property=C09 replay=%s" % path)
            log("   %s fails: two files of version bit %s with differently named %s children in one %s: expected %s, second load %s, children %s" % (v["pred"], v["r"]["ver"], v["r"]["child"], v["r"]["ty"], v["r"]["exp"], v["r"]["load2"], v["r"]["names"]))
    for v in verdicts:
        # the duplicate-element finding: the record itself has a duplicated path, or (order independence) some record of the same split has
        dupids = getattr(check_c09, "_dupids", None)
        if dupids is None:
            dupids = set(json.dumps(x["id"], sort_keys=True) for x in verdicts if x["dup"])
            check_c09._dupids = dupids
        hit = [f for f in kf if v["pred"] in f.get("preds", []) and (v["dup"] or (v["pred"] == "OrderIndependent" and json.dumps(v["id"], sort_keys=True) in dupids))]
        if hit:
            known[hit[0]["id"]] = hit[0]
            continue
        viol += 1
        if viol <= 20:
            dd = os.path.join(WORK, "replays")
            os.makedirs(dd, exist_ok=True)
            path = os.path.join(dd, "C09-%d.json" % viol)
            json.dump(dict(v, property="C09", engine="E5"), open(path, "w"))
            print("VIOLATION property=C09 replay=%s" % path)
            log("   %s fails: split %s, load order %s, loads %s, duplicates %s" % (v["pred"], v["id"], v["order"], v["loads"], v["dup"]))
    for fid, f in known.items():
        print("KNOWN-FINDING: property=C09 %s" % f["what"])
    nrec = nrec_total[0]
    samples = []
    with open(inp) as f:
        for i, l in enumerate(f):
            if i in (0, 50):
                c = json.loads(l)
                samples.append({"split": c["id"], "view_of_file_1": c["views"][0][-260:]})
    ev = {"property_id": "C09", "tier": tier, "seed": seed(), "level": "model_checking",
          "coverage": {"states": max(1, g["distinct"]), "transitions": max(1, g["generated"]), "traces_validated_against_impl": nrec, "samples": samples or ["none"],
                       "files": nfiles, "splits_x_sibling_orders": g["n"], "families_files_reorder_small_oldfile": [list(f) for f in fams], "known_findings_hit": sorted(known.keys()), "exhaustive": True,
                       "conflict_cases": {"types_with_version_dependent_split_mark": fj["version_dependent"], "never_splittable": fj["never"], "always_splittable": fj["always"],
                                          "facts_used": len(fj["facts"]), "records": sr["records"], "unbuildable": sr["unbuildable"]},
                       "explanation": "TLC enumerates every split of the master model (2 packages, 4 elements, a nested package) over two and three files, with each file presenting its siblings in document or reversed order; the harness loads the views in every order; TLC judges Union, Attribution, FileContent and OrderIndependent on every merged model"},
          "assumptions": ["one master shape (spec/merge/Merge.tla); BSW containers keyed by DEFINITION-REF and files of different versions are not in the enumerated family", "canonical element lists from harness/src/merge.rs"],
          "wall_s": round(time.time() - t0, 2), "violations": viol}
    os.makedirs(EVID, exist_ok=True)
    json.dump(ev, open(os.path.join(EVID, "C09.json"), "w"), indent=1)
    if tool_errors:
        log("TOOL ERRORS: " + "; ".join(tool_errors[:5]))
        return 1 if viol else 2
    return 1 if viol else 0


# ----------------------------------------------------------------------------------------- E8 number engine (C20, partial)
def check_c20(tier):
    t0 = time.time()
    build()
    run = os.path.join(WORK, "E8-" + tier)
    shutil.rmtree(run, ignore_errors=True)
    shutil.copytree(os.path.join(ROOT, "spec", "numbers"), run)
    tool_errors = []
    maxlen = 4 if tier == "quick" else 5
    for mode in ("gen", "judge"):
        open(os.path.join(run, "num_%s.cfg" % mode), "w").write("SPECIFICATION Spec\nCHECK_DEADLOCK FALSE\nCONSTANTS\n  Mode = \"%s\"\n  MaxLen = %d\n  Full = %s\n" % (mode, maxlen, "FALSE" if tier == "quick" else "TRUE"))
    inp = os.path.join(run, "in.ndjson")
    g = tlc_lines(run, "Numbers.tla", "num_gen.cfg", "I", inp, workers=8)
    if g["rc"] != 0 or g["n"] == 0:
        tool_errors.append("Numbers gen rc=%s n=%s %s" % (g["rc"], g["n"], g["errors"][:2]))
    out = os.path.join(run, "res.ndjson")
    sh([VH, "numbers", "--in", inp, "--out", out], timeout=3600)
    j = run_tlc(run, "Numbers.tla", "num_judge.cfg", 1, 3600, env={"RESULTS": out}, tag="_judge", heap="12g")
    if j["rc"] != 0:
        tool_errors.append("Numbers judge rc=%s %s" % (j["rc"], j["errors"][:2]))
    verdicts = [json.loads(decode_tagged(l)[1][0]) for l in j["tagged"] if l.startswith('<<"V"')]
    kf = [f for f in known_findings().get("findings", []) if f.get("engine") == "E8"]
    viol = 0
    known = {}
    for v in verdicts:
        hit = [f for f in kf if f.get("pred") == v["pred"] and (not f.get("text") or f["text"] == v["r"]["text"])]
        if hit:
            known[hit[0]["id"]] = hit[0]
            continue
        viol += 1
        if viol <= 20:
            dd = os.path.join(WORK, "replays")
            os.makedirs(dd, exist_ok=True)
            path = os.path.join(dd, "C20-%d.json" % viol)
            json.dump({"property": "C20", "engine": "E8", "predicate": v["pred"], "text": v["r"]["text"]}, open(path, "w"))
            print("VIOLATION property=C20 replay=%s" % path)
            log("   %s fails for the text %r: expected %s, got %s %s" % (v["pred"], v["r"]["text"], v["r"].get("exp"), v["r"].get("got"), v["r"].get("fgot")))
    for fid, f in known.items():
        print("KNOWN-FINDING: property=C20 %s" % f["what"])
    nrec = sum(1 for _ in open(out))
    inform = sum(1 for l in open(out) if '"inform":true' in l or '"finform":true' in l or '"kind":"str"' in l)
    samples = []
    with open(out) as f:
        for i, l in enumerate(f):
            r = json.loads(l)
            if r["inform"] and len(samples) < 5 and i % 701 == 3:
                samples.append({"text": r["text"], "u8": r["got"].get("u8"), "i16": r["got"].get("i16"), "float": r["fgot"]})
    ev = {"property_id": "C20", "tier": tier, "seed": seed(), "level": "exploration",
          "coverage": {"evaluations": nrec, "distinct_nontrivial": inform, "rule": "TLC enumerates (spec/numbers/Numbers.tla) every text of up to %d symbols over the integer alphabet {0,1,7,8,9,a,f,x,b,+,-,a two-byte character} with the value of its lexical form and whether it fits each of 8 integer widths; every text of up to %d symbols over the numerical alphabet {0,1,5,.,e,-%s} (length up to 5 in both tiers) plus INF/-INF/NaN/true/false with mantissa and exponent of its value (compared with the shortest round-trip form of the returned f64) and its boolean reading; every string of up to %d of the characters & < > ' \" a blank as attribute value and element text of a written and strictly re-loaded document; non-trivial = the text is in one of the AUTOSAR lexical forms; plus format->parse round trips of boundary u64 values, f64 classes and all enumeration items; no interpretation may panic" % (maxlen, maxlen + 1, "" if tier == "quick" else ",E,+", maxlen - 1),
                       "samples": samples or ["none"], "exhaustive": True},
          "assumptions": ["values below 2^31 only (TLC integers); correct rounding of arbitrary decimal texts, the full u64/i64 range and overflow at 2^32 / 2^64 are not covered (DESIGN 6.20)"],
          "wall_s": round(time.time() - t0, 2), "violations": viol}
    os.makedirs(EVID, exist_ok=True)
    json.dump(ev, open(os.path.join(EVID, "C20.json"), "w"), indent=1)
    if tool_errors:
        log("TOOL ERRORS: " + "; ".join(tool_errors[:5]))
        return 1 if viol else 2
    return 1 if viol else 0


# ----------------------------------------------------------------------------------------- E7 regex engine (C19)
def check_c19(tier):
    import regex2tla
    t0 = time.time()
    build()
    run = os.path.join(WORK, "E7-" + tier)
    shutil.rmtree(run, ignore_errors=True)
    os.makedirs(run)
    src = regex2tla.read_sources(REPO)
    kf = known_findings()
    suffix = 2 if tier == "quick" else 3
    tot = {"states": 0, "transitions": 0, "evaluated": 0, "accepted": 0, "tables": 0, "tablediff": 0, "selfcheck_bad": 0}
    viol = 0
    known = {}
    samples = []
    tool_errors = []
    per = {}

    def one(n):
        d = os.path.join(run, "r%d" % n)
        os.makedirs(d)
        for f in os.listdir(os.path.join(ROOT, "spec", "regex")):
            shutil.copy(os.path.join(ROOT, "spec", "regex", f), d)
        mod, data, g = regex2tla.make(REPO, n)
        open(os.path.join(d, "RegexData.tla"), "w").write(mod)
        json.dump(data, open(os.path.join(d, "data.json"), "w"))
        bad = regex2tla.selfcheck(g, src[n]["regex"], rounds=1500, seed=seed())
        # large class counts: a shorter suffix keeps the suite tractable
        sl = suffix if len(data["classes"]) <= 12 else max(1, suffix - 1)
        cfg = open(os.path.join(d, "regex.cfg")).read().replace("SuffixLen = 2", "SuffixLen = %d" % sl)
        open(os.path.join(d, "regex.cfg"), "w").write(cfg)
        tests = os.path.join(d, "tests.ndjson")
        meta = os.path.join(d, "meta")
        p = subprocess.Popen(["timeout", "1500"] + tlc_cmd(xss="512m") + ["-workers", "2", "-metadir", meta, "-cleanup", "-noGenerateSpecTE", "-config", "regex.cfg", "RegexNFA.tla"],
                             cwd=d, stdout=subprocess.PIPE, stderr=subprocess.STDOUT, text=True, env=dict(os.environ, JAVA_TOOL_OPTIONS="-Xss512m"))
        st = {"generated": 0, "distinct": 0, "diffs": [], "err": []}
        with open(tests, "w") as tf:
            for line in p.stdout:
                if line.startswith('<<"S", '):
                    tf.write(json.loads(line[len('<<"S", '):].rstrip()[:-2]) + "\n")
                elif line.startswith('<<"TABLEDIFF", '):
                    st["diffs"].append(json.loads(json.loads(line[len('<<"TABLEDIFF", '):].rstrip()[:-2])))
                elif "states generated" in line and "distinct" in line and not line.startswith("Progress"):
                    parts = line.replace(",", "").split()
                    st["generated"], st["distinct"] = int(parts[0]), int(parts[3])
                elif line.startswith("Error:") or "Attempted" in line:
                    st["err"].append(line.strip())
        p.wait()
        if p.returncode != 0 or st["distinct"] < 1:
            st["err"].append("tlc rc=%s" % p.returncode)
        r = sh([VH, "regex", "--data", os.path.join(d, "data.json"), "--tests", tests], timeout=3600)
        res = json.loads(r.stdout.strip().splitlines()[-1])
        return n, data, st, res, bad

    from concurrent.futures import ThreadPoolExecutor
    with ThreadPoolExecutor(max_workers=8) as ex:
        outs = list(ex.map(one, sorted(src)))
    for n, data, st, res, bad in outs:
        tot["states"] += st["distinct"]
        tot["transitions"] += st["generated"]
        tot["selfcheck_bad"] += bad
        if data["has_table"]:
            tot["tables"] += 1
        if st["err"]:
            tool_errors.append("regex %d: %s" % (n, st["err"][:2]))
        if "error" in res:
            tool_errors.append("regex %d: %s" % (n, res["error"]))
            continue
        tot["evaluated"] += res["evaluated"]
        tot["accepted"] += res["accepted"]
        per[str(n)] = {"regex": data["regex"], "classes": len(data["classes"]), "nfa_positions": data["npos"], "table": data["has_table"],
                       "product_states": st["distinct"], "strings": res["evaluated"], "accepted": res["accepted"]}
        samples += [dict(s, regex=n) for s in res["samples"][:1]]
        # a table difference found on the model is a candidate; it counts through the strings run on the real function
        # (the witness + suffix suite contains the witness string itself)
        tot["tablediff"] += len(st["diffs"])
        for mm in res["mismatch"]:
            hit = [f for f in kf.get("findings", []) if f.get("engine") == "E7" and f.get("regex") == n and
                   (f.get("kind") == "accepts-nonmember") == (mm["validator_says"] is True)]
            if hit:
                known[hit[0]["id"]] = hit[0]
                continue
            viol += 1
            pern = per[str(n)].setdefault("violations", 0)
            per[str(n)]["violations"] = pern + 1
            if pern < 3:
                d = os.path.join(WORK, "replays")
                os.makedirs(d, exist_ok=True)
                path = os.path.join(d, "C19-%d.json" % viol)
                json.dump({"property": "C19", "engine": "E7", "regex_id": n, "regex": data["regex"], "bytes": mm["bytes"], "regex_says": mm["regex_says"]}, open(path, "w"))
                print("VIOLATION property=C19 replay=%s" % path)
                log("   validate_regex_%d(%r) = %s but the published regex %s says %s" % (n, mm.get("text"), mm["validator_says"], data["regex"][:60], mm["regex_says"]))
    for fid, f in known.items():
        print("KNOWN-FINDING: property=C19 %s" % f["what"])
    if tot["selfcheck_bad"]:
        tool_errors.append("translator self-check against python re failed on %d strings" % tot["selfcheck_bad"])
    ev = {"property_id": "C19", "tier": tier, "seed": seed(), "level": "model_checking",
          "coverage": {"states": max(1, tot["states"]), "transitions": max(1, tot["transitions"]), "traces_validated_against_impl": tot["evaluated"],
                       "samples": samples[:6] or ["none"], "regexes": len(per), "table_validators_product_checked": tot["tables"],
                       "model_level_table_differences": tot["tablediff"], "strings_accepted_by_validators": tot["accepted"],
                       "suffix_length": suffix, "per_regex": per, "exhaustive": True,
                       "explanation": "product automaton (NFA position set x table state) explored exhaustively per table validator; transition cover x suffix strings run on the compiled check_fn"},
          "assumptions": ["tools/regex2tla.py (regex -> position NFA), self-checked against python re", "dialect of DESIGN 6.19", "TLC"],
          "wall_s": round(time.time() - t0, 2), "violations": viol}
    os.makedirs(EVID, exist_ok=True)
    json.dump(ev, open(os.path.join(EVID, "C19.json"), "w"), indent=1)
    if tool_errors:
        log("TOOL ERRORS: " + "; ".join(tool_errors[:5]))
        return 1 if viol else 2
    return 1 if viol else 0


def replay_c19(path):
    build()
    r = json.load(open(path))
    o = sh([VH, "regex1", "--regex", r["regex"], "--bytes", json.dumps(r["bytes"])])
    got = json.loads(o.stdout.strip().splitlines()[-1])
    if got.get("validator_says") != r["regex_says"]:
        print("VIOLATION property=C19 replay=%s" % path)
        return 1
    print("replay: validator and published regex agree on this string")
    return 0


def main(argv):
    try:
        if not argv:
            log(__doc__)
            return 2
        if argv[0] == "setup":
            build()
            return 0
        prop = argv[0]
        if len(argv) > 2 and argv[1] == "--replay":
            if prop == "C19":
                return replay_c19(argv[2])
            if prop in ("C01", "C02", "C08"):
                return replay_e4(prop, argv[2])
            return replay_e1(prop, argv[2])
        tier = argv[1] if len(argv) > 1 else os.environ.get("VERIF_TIER", "quick")
        if prop in E1_PROPS:
            return check_e1(prop, tier)
        if prop == "C19":
            return check_c19(tier)
        if prop in ("C01", "C02", "C08"):
            return check_e4(prop, tier)
        if prop == "C14":
            return check_c14(tier)
        if prop == "C07":
            return check_c07(tier)
        if prop == "C17":
            return check_c17(tier)
        if prop == "C20":
            return check_c20(tier)
        if prop == "C09":
            return check_c09(tier)
        if prop == "C15":
            return check_c15(tier)
        if prop == "C16":
            return check_c16(tier)
        log("unknown property / not claimed: " + prop)
        return 2
    except ToolError as e:
        log("TOOL ERROR: %s" % e)
        return 1 if _NVIOL[0] else 2
    except Exception:
        import traceback
        log("TOOL ERROR (internal): " + traceback.format_exc())
        return 1 if _NVIOL[0] else 2
