#!/usr/bin/env python3
"""Re-base every seeded change onto the current HEAD of /repo and re-confirm it cheaply (no check is run):
the patch applies (plainly or by 3-way merge), the result is written as patch.rebased.diff against HEAD, the crate builds,
the demonstration fails with the change.   usage: seedrebase.py <scratch dir> <seed dir> ...
Prints one JSON line per seed: {seed, head, applies, demo_fails_with}."""
import json, os, shutil, subprocess, sys


def sh(cmd, cwd=None, timeout=1800):
    e = dict(os.environ, CARGO_NET_OFFLINE="true")
    r = subprocess.run(cmd, shell=True, cwd=cwd, env=e, stdout=subprocess.PIPE, stderr=subprocess.STDOUT, text=True, timeout=timeout)
    return r.returncode, r.stdout


def main():
    sw = sys.argv[1]
    wt = os.path.join(sw, "wt")
    os.makedirs(sw, exist_ok=True)
    if not os.path.exists(wt):
        sh("git -C /repo worktree add --detach %s HEAD" % wt)
    head = sh("git -C /repo rev-parse --short HEAD")[1].strip()
    for seeddir in sys.argv[2:]:
        seeddir = seeddir.rstrip("/")
        sh("git reset -q --hard; git checkout -q --detach $(git -C /repo rev-parse HEAD) && git reset -q --hard && git clean -fdq -e target", cwd=wt)
        out = {"seed": seeddir, "head": head}
        src = os.path.join(seeddir, "patch.rebased.diff")
        if not (os.path.exists(src) and os.path.getsize(src) > 0):
            src = os.path.join(seeddir, "patch.diff")
        rc, o = sh("git apply %s 2>&1" % src, cwd=wt)
        if rc != 0:
            rc, o = sh("git apply --3way %s 2>&1" % os.path.join(seeddir, "patch.diff"), cwd=wt)
            if rc != 0 or "with conflicts" in o:
                sh("git reset -q --hard", cwd=wt)
                rc = 1
        out["applies"] = rc == 0
        if rc == 0:
            rc2, d = sh("git diff HEAD", cwd=wt)
            open(os.path.join(seeddir, "patch.rebased.diff"), "w").write(d)
            demo = os.path.join(wt, "autosar-data", "tests", "seed_demo.rs")
            os.makedirs(os.path.dirname(demo), exist_ok=True)
            shutil.copy(os.path.join(seeddir, "demo.rs"), demo)
            rc3, o3 = sh("cargo test --offline -p autosar-data --test seed_demo 2>&1 | tail -5", cwd=wt)
            out["demo_fails_with"] = "test result: FAILED" in o3 or "panicked" in o3
            os.remove(demo)
        else:
            out["apply_msg"] = o[-200:]
        print(json.dumps(out), flush=True)
    sh("git reset -q --hard && git clean -fdq -e target", cwd=wt)


main()
