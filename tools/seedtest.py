#!/usr/bin/env python3
"""Try seeded changes (a directory with patch.diff + demo.rs) against the checks, on a scratch worktree of /repo.
usage: seedtest.py <seeddir> <prop> [<prop> ...]     e.g. seedtest.py /tmp/seed/C04/A C04
Prints one JSON line: applies / suite_pass / demo_fails_with / demo_passes_without / per property: detected."""
import json, os, subprocess, sys, shutil
SW = os.environ.get("SEED_SW", "/tmp/sw")
WT = os.path.join(SW, "wt")

def sh(cmd, cwd=None, timeout=3600, env=None):
    e = dict(os.environ); e["CARGO_NET_OFFLINE"] = "true"
    if env: e.update(env)
    r = subprocess.run(cmd, shell=True, cwd=cwd, env=e, stdout=subprocess.PIPE, stderr=subprocess.STDOUT, text=True, timeout=timeout)
    return r.returncode, r.stdout

def main():
    seeddir = sys.argv[1].rstrip("/")
    props = sys.argv[2:]
    tag = "_".join(seeddir.split("/")[-2:])
    os.makedirs(SW, exist_ok=True)
    if not os.path.exists(WT):
        sh("git -C /repo worktree add --detach %s HEAD" % WT)
    sh("git reset -q --hard; git checkout -q --detach $(git -C /repo rev-parse HEAD) && git reset -q --hard && git clean -fdq -e target", cwd=WT)
    out = {"seed": seeddir, "head": sh("git -C /repo rev-parse --short HEAD")[1].strip()}
    demo = os.path.join(WT, "autosar-data", "tests", "seed_demo.rs")
    os.makedirs(os.path.dirname(demo), exist_ok=True)
    shutil.copy(os.path.join(seeddir, "demo.rs"), demo)
    rc, o = sh("cargo test --offline -p autosar-data --test seed_demo 2>&1 | tail -5", cwd=WT)
    out["demo_passes_without"] = "test result: ok" in o
    rc, o = sh("git apply %s/patch.diff 2>&1" % seeddir, cwd=WT)
    if rc != 0:
        # context moved because of later repairs: try a 3-way merge, but never leave a conflicted tree behind
        rc, o = sh("git apply --3way %s/patch.diff 2>&1" % seeddir, cwd=WT)
        if rc != 0 or "with conflicts" in o:
            sh("git reset -q --hard", cwd=WT)
            rc = 1
    out["applies"] = rc == 0
    if rc != 0:
        out["apply_msg"] = o[-300:]
        print(json.dumps(out)); return
    # the change as a patch against this very commit (the stored patch must apply with a plain `git apply`)
    rc, o = sh("git diff HEAD -- . ':(exclude)autosar-data/tests/seed_demo.rs'", cwd=WT)
    open(os.path.join(seeddir, "patch.rebased.diff"), "w").write(o)
    rc, o = sh("cargo test --offline -p autosar-data --test seed_demo 2>&1 | tail -5", cwd=WT)
    out["demo_fails_with"] = "test result: FAILED" in o or "panicked" in o
    os.remove(demo)
    rc, o = sh("cargo test --workspace --no-fail-fast --offline 2>&1 | grep -E '^test result'", cwd=WT)
    out["suite_pass"] = ("FAILED" not in o) and o.count("test result: ok") >= 3
    out["checks"] = {}
    for p in props:
        work = os.path.join(SW, "work_" + tag)
        rc, o = sh("./check %s quick" % p, cwd="/verif", env={"VERIF_REPO": WT, "VERIF_WORK": work}, timeout=7200)
        lines = o.splitlines()
        viol = [l for l in lines if l.startswith("VIOLATION")]
        detail = ""
        for i, l in enumerate(lines):
            if l.startswith("VIOLATION") and i + 1 < len(lines) and not lines[i + 1].startswith(("VIOLATION", "KNOWN")):
                detail = lines[i + 1].strip()[:300]
                break
        out["checks"][p] = {"rc": rc, "violations": len(viol), "first": (viol[0] if viol else ""), "detail": detail, "tail": lines[-3:] if rc == 2 else []}
    shutil.rmtree(os.path.join(SW, "work_" + tag), ignore_errors=True)
    sh("git reset -q --hard && git clean -fdq -e target", cwd=WT)
    print(json.dumps(out))

main()
