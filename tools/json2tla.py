#!/usr/bin/env python3
"""Render a JSON value as a TLA+ expression (objects -> records, arrays -> sequences)."""
import json, sys

def tla(v):
    if isinstance(v, bool):
        return "TRUE" if v else "FALSE"
    if isinstance(v, int):
        return str(v) if v >= 0 else "(%d)" % v
    if isinstance(v, str):
        return '"' + v.replace('\\', '\\\\').replace('"', '\\"') + '"'
    if isinstance(v, list):
        return "<<" + ", ".join(tla(x) for x in v) + ">>"
    if isinstance(v, dict):
        if not v:
            return "[x \\in {} |-> 0]"
        # keys are arbitrary strings (kind names with '-' or '~'): build the record as a function over strings
        return "(" + " @@ ".join('(%s :> %s)' % (tla(k), tla(x)) for k, x in v.items()) + ")"
    raise ValueError(type(v))

def module(name, defname, value):
    return "---- MODULE %s ----\nEXTENDS TLC, Integers\n%s == %s\n====\n" % (name, defname, tla(value))

if __name__ == "__main__":
    src, name, defname, out = sys.argv[1:5]
    open(out, "w").write(module(name, defname, json.load(open(src))))
