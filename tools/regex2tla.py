#!/usr/bin/env python3
"""E7: published regex text (+ the validator's transition table, if it has one) -> position NFA as TLA+ constants.

Reads /repo/autosar-data-specification/src/{regex.rs,specification.rs} of the current tree.
Dialect (DESIGN 6.19): byte strings, whole-string match, '.' = any byte except LF, \\d = [0-9], classes and {m,n} as usual.
"""
import json, os, re, sys

# ---------------------------------------------------------------- regex parser -> AST
# AST: ('set', frozenset(bytes)) | ('cat', [..]) | ('alt', [..]) | ('star', x) | ('plus', x) | ('opt', x) | ('eps',)

def parse(rx):
    pos = [0]
    s = rx

    def peek():
        return s[pos[0]] if pos[0] < len(s) else None

    def eat():
        c = s[pos[0]]
        pos[0] += 1
        return c

    def alt():
        items = [cat()]
        while peek() == '|':
            eat()
            items.append(cat())
        return items[0] if len(items) == 1 else ('alt', items)

    def cat():
        items = []
        while peek() is not None and peek() not in '|)':
            items.append(rep())
        if not items:
            return ('eps',)
        return items[0] if len(items) == 1 else ('cat', items)

    def rep():
        a = atom()
        while peek() is not None and peek() in '*+?{':
            c = peek()
            if c == '*':
                eat(); a = ('star', a)
            elif c == '+':
                eat(); a = ('plus', a)
            elif c == '?':
                eat(); a = ('opt', a)
            else:
                j = s.index('}', pos[0])
                body = s[pos[0] + 1:j]
                pos[0] = j + 1
                if ',' in body:
                    lo, hi = body.split(',')
                    lo = int(lo); hi = int(hi) if hi != '' else None
                else:
                    lo = hi = int(body)
                parts = [a] * lo
                if hi is None:
                    parts.append(('star', a))
                else:
                    # a{lo,hi} = a^lo (a (a (...)?)?)?
                    tail = None
                    for _ in range(hi - lo):
                        tail = ('opt', a if tail is None else ('cat', [a, tail]))
                    if tail is not None:
                        parts.append(tail)
                a = ('eps',) if not parts else (parts[0] if len(parts) == 1 else ('cat', parts))
        return a

    def esc(c):
        if c == 'd':
            return frozenset(range(48, 58))
        if c == 'w':
            return frozenset(list(range(48, 58)) + list(range(65, 91)) + list(range(97, 123)) + [95])
        if c == 's':
            return frozenset([32, 9, 10, 13, 12, 11])
        return frozenset([ord(c)])

    def atom():
        c = eat()
        if c == '(':
            if s[pos[0]:pos[0] + 2] == '?:':
                pos[0] += 2
            a = alt()
            assert eat() == ')'
            return a
        if c == '[':
            neg = False
            if peek() == '^':
                eat(); neg = True
            items = set()
            first = True
            while True:
                c = eat()
                if c == ']' and not first:
                    break
                first = False
                if c == '\\':
                    st = esc(eat())
                    if len(st) > 1:
                        items |= st
                        continue
                    lo = next(iter(st))
                else:
                    lo = ord(c)
                if peek() == '-' and s[pos[0] + 1] != ']':
                    eat()
                    c2 = eat()
                    hi = next(iter(esc(eat()))) if c2 == '\\' else ord(c2)
                    items |= set(range(lo, hi + 1))
                else:
                    items.add(lo)
            if neg:
                items = set(range(256)) - items
            return ('set', frozenset(items))
        if c == '.':
            return ('set', frozenset(set(range(256)) - {10}))
        if c == '\\':
            return ('set', esc(eat()))
        return ('set', frozenset([ord(c)]))

    a = alt()
    assert pos[0] == len(s), "trailing: " + s[pos[0]:]
    return a


# ---------------------------------------------------------------- Glushkov construction
def glushkov(ast):
    sets = []   # position -> byte set

    def go(a):
        """returns (nullable, first, last); follow is filled in"""
        k = a[0]
        if k == 'eps':
            return True, set(), set()
        if k == 'set':
            sets.append(a[1])
            p = len(sets)
            follow[p] = set()
            return False, {p}, {p}
        if k == 'cat':
            n, f, l = True, set(), set()
            for x in a[1]:
                n2, f2, l2 = go(x)
                for p in l:
                    follow[p] |= f2
                if n:
                    f = f | f2
                l = (l | l2) if n2 else l2
                n = n and n2
            return n, f, l
        if k == 'alt':
            n, f, l = False, set(), set()
            for x in a[1]:
                n2, f2, l2 = go(x)
                n = n or n2; f |= f2; l |= l2
            return n, f, l
        n2, f2, l2 = go(a[1])
        if k in ('star', 'plus'):
            for p in l2:
                follow[p] |= f2
        return (n2 or k in ('star', 'opt')), f2, l2

    follow = {}
    n, f, l = go(ast)
    return dict(npos=len(sets), sets=sets, nullable=n, first=sorted(f), last=sorted(l), follow={p: sorted(v) for p, v in follow.items()})


def nfa_accepts(g, data):
    cur = None  # None = start
    st = set()
    for i, b in enumerate(data):
        nxt = set()
        src = g['first'] if i == 0 else [q for p in st for q in g['follow'][p]]
        for q in src:
            if b in g['sets'][q - 1]:
                nxt.add(q)
        st = nxt
        if not st:
            return False
    if len(data) == 0:
        return g['nullable']
    return bool(st & set(g['last']))


# ---------------------------------------------------------------- sources
def read_sources(repo):
    base = os.path.join(repo, "autosar-data-specification", "src")
    rs = open(os.path.join(base, "regex.rs")).read()
    spec = open(os.path.join(base, "specification.rs")).read()
    out = {}
    # published regex next to each check_fn in specification.rs
    for m in re.finditer(r'check_fn:\s*validate_regex_(\d+),\s*regex:\s*r"((?:[^"\\]|\\.)*)"', spec):
        n = int(m.group(1))
        out.setdefault(n, {"n": n, "regex": m.group(2)})
        if out[n]["regex"] != m.group(2):
            out[n].setdefault("other_regex", []).append(m.group(2))
    # tables and accepting states in regex.rs
    for m in re.finditer(r'static REGEX_(\d+)_TABLE: \[\[u8; 256\]; (\d+)usize\] = \[(.*?)\n\];', rs, re.S):
        n = int(m.group(1))
        nums = [int(x) for x in re.findall(r'\d+', m.group(3))]
        rows = int(m.group(2))
        assert len(nums) == rows * 256, (n, len(nums), rows)
        out.setdefault(n, {"n": n})["table"] = [nums[i * 256:(i + 1) * 256] for i in range(rows)]
    for m in re.finditer(r'pub\(crate\) fn validate_regex_(\d+)\(s: &\[u8\]\) -> bool \{(.*?)\n\}', rs, re.S):
        n = int(m.group(1))
        body = m.group(2)
        mm = re.search(r'matches!\(state,\s*([^)]*)\)', body)
        if mm and "table" in out.get(n, {}):
            acc = set()
            for part in mm.group(1).split('|'):
                part = part.strip()
                if '..=' in part:
                    a, b = part.split('..=')
                    acc |= set(range(int(a), int(b) + 1))
                elif part:
                    acc.add(int(part))
            out[n]["accept"] = sorted(acc)
    return out


def classes_for(g, table):
    """partition 0..255 so that bytes of one class are in the same position sets and have the same table column"""
    sig = {}
    for b in range(256):
        key = (tuple(b in s for s in g['sets']), tuple(row[b] for row in table) if table else ())
        sig.setdefault(key, []).append(b)
    return sorted(sig.values(), key=lambda c: c[0])


def tla_set(xs):
    return "{" + ", ".join(str(x) for x in xs) + "}"


def make(repo, n):
    src = read_sources(repo)[n]
    ast = parse(src["regex"])
    g = glushkov(ast)
    table = src.get("table")
    cls = classes_for(g, table)
    k = len(cls)
    posclass = [[ci + 1 for ci, c in enumerate(cls) if c[0] in s] for s in g['sets']]
    lines = ["---- MODULE RegexData ----", "EXTENDS Integers, Sequences", "RegexId == %d" % n,
             "NPos == %d" % g['npos'], "NClass == %d" % k,
             "PosClass == <<" + ", ".join(tla_set(x) for x in posclass) + ">>",
             "First == " + tla_set(g['first']), "Last == " + tla_set(g['last']),
             "Nullable == " + ("TRUE" if g['nullable'] else "FALSE"),
             "Follow == <<" + ", ".join(tla_set(g['follow'][p]) for p in range(1, g['npos'] + 1)) + ">>",
             "HasTable == " + ("TRUE" if table else "FALSE")]
    if table:
        lines.append("Table == <<" + ", ".join("<<" + ", ".join(str(row[c[0]]) for c in cls) + ">>" for row in table) + ">>")
        lines.append("TableAccept == " + tla_set(src.get("accept", [])))
    else:
        lines.append("Table == <<>>")
        lines.append("TableAccept == {}")
    lines.append("====")
    data = {"n": n, "regex": src["regex"], "classes": [[c[0], c[-1], c[len(c) // 2], len(c)] for c in cls], "class_bytes": cls,
            "npos": g['npos'], "has_table": bool(table)}
    return "\n".join(lines) + "\n", data, g


def selfcheck(g, rx, rounds=3000, seed=1):
    """translator self-check (not an oracle): the NFA agrees with python's re on random and near-member strings"""
    import random
    rnd = random.Random(seed)
    pat = re.compile(("(?:" + rx + ")").encode(), re.S if False else 0)
    alphabet = sorted(set(b for s in g['sets'] for b in list(s)[:3]) | {0, 10, 32, 47, 48, 57, 65, 90, 97, 122, 255})
    bad = 0
    for _ in range(rounds):
        ln = rnd.choice([0, 1, 1, 2, 2, 3, 3, 4, 5, 6, 8, 12])
        data = bytes(rnd.choice(alphabet) for _ in range(ln))
        if nfa_accepts(g, data) != bool(pat.fullmatch(data)):
            bad += 1
    return bad


if __name__ == "__main__":
    repo = sys.argv[1] if len(sys.argv) > 1 else "/repo"
    src = read_sources(repo)
    for n in sorted(src):
        mod, data, g = make(repo, n)
        print(n, "pos", data["npos"], "classes", len(data["classes"]), "table", data["has_table"], "selfcheck_bad", selfcheck(g, src[n]["regex"]))
