#!/usr/bin/env python3
"""Markdown table "which check catches which seeded change" from /verif/seeded/*/meta.json (written by tools/seedstore.py).
usage: seedtable.py            prints the table; DESIGN.md embeds it"""
import glob, json, os

ROOT = os.path.dirname(os.path.dirname(os.path.abspath(__file__)))


def main():
    rows = []
    for p in sorted(glob.glob(os.path.join(ROOT, "seeded", "*", "meta.json"))):
        m = json.load(open(p))
        title = m["title"]
        for pre in ("%s / change %s" % (m["property"], m["id"][-1]), "%s / %s" % (m["property"], m["id"][-1]), "%s seed %s" % (m["property"], m["id"][-1]), m["property"] + " / " + m["id"][-1]):
            if title.lower().startswith(pre.lower()):
                title = title[len(pre):].lstrip(" -—:").strip()
        title = title.replace("|", "/")
        chk = [x for x in m["ran"] if "./check" in x]
        det = (m.get("first_violation_detail") or "").replace("|", "/")
        res = ("**caught**: " + det[:160]) if m["detected_by_quick_check"] else "missed"
        rows.append((m["id"], m["property"], title[:150], "`./check %s quick`" % m["property"], res))
    print("| seeded change | property | what it does | check | result |")
    print("|---|---|---|---|---|")
    for r in rows:
        print("| %s | %s | %s | %s | %s |" % r)
    n = len(rows)
    c = sum(1 for r in rows if r[4].startswith("**caught"))
    print()
    print("%d confirmed seeded changes, %d caught by the quick check of the property they break, %d missed." % (n, c, n - c))


main()
