#!/usr/bin/env python3
"""Store confirmed seeded changes under /verif/seeded/<id>/ from the candidate directories and the seedtest results.
usage: seedstore.py <candidates dir> <results.ndjson>
A candidate <dir>/<Cxx>/<A|B>/{patch.diff,demo.rs,notes.md} is kept when the latest result line for it says: the demonstration
passes on the unchanged tree, the patch applies, the demonstration fails with it, and the repository's test suite still passes."""
import json, os, re, shutil, sys

ROOT = os.path.dirname(os.path.dirname(os.path.abspath(__file__)))


def main():
    cand, results = sys.argv[1], sys.argv[2]
    latest = {}
    for l in open(results):
        try:
            d = json.loads(l)
        except ValueError:
            continue
        latest["/".join(d["seed"].rstrip("/").split("/")[-2:])] = d
    table = []
    for key in sorted(latest):
        d = latest[key]
        prop, var = key.split("/")
        sid = "%s-%s" % (prop, var)
        src = os.path.join(cand, prop, var)
        if not os.path.isdir(src):
            continue    # a change of another round (other candidates directory)
        confirmed = d.get("demo_passes_without") and d.get("applies") and d.get("demo_fails_with") and d.get("suite_pass")
        if not confirmed:
            table.append((sid, prop, "not confirmed", d))
            continue
        dst = os.path.join(ROOT, "seeded", sid)
        os.makedirs(dst, exist_ok=True)
        rebased = os.path.join(src, "patch.rebased.diff")
        shutil.copy(rebased if os.path.exists(rebased) and os.path.getsize(rebased) > 0 else os.path.join(src, "patch.diff"), os.path.join(dst, "patch.diff"))
        shutil.copy(os.path.join(src, "demo.rs"), os.path.join(dst, "demo.rs"))
        notes = open(os.path.join(src, "notes.md")).read() if os.path.exists(os.path.join(src, "notes.md")) else ""
        title = notes.strip().splitlines()[0].lstrip("# ").strip() if notes.strip() else sid
        m = re.search(r"(?is)(needed to manifest|what is needed to manifest|needs)\**\s*:?\**\s*(.*?)(\n\s*\n|\n- \*\*|\n\*\*|\n- [A-Z][a-z]+ ?[a-z]*:|\Z)", notes)
        needs = re.sub(r"\s+", " ", m.group(2)).strip() if m else ""
        chk = d.get("checks", {}).get(prop, {})
        meta = {
            "id": sid, "property": prop, "title": title,
            "needs_to_manifest": needs,
            "origin": "written by a fresh sub-agent that saw only the text of the property and its own scratch worktree; patch context re-based onto the repaired tree where a later fix: commit had touched the same lines",
            "confirmed_on_commit": d.get("head"),
            "ran": [
                "git worktree add --detach <scratch> HEAD (outside /repo and /verif)",
                "cp demo.rs <scratch>/autosar-data/tests/seed_demo.rs && cargo test --offline -p autosar-data --test seed_demo   -> passes without the change",
                "git apply patch.diff && cargo test --offline -p autosar-data --test seed_demo   -> fails with the change",
                "cargo test --workspace --no-fail-fast --offline   -> the repository's 164 tests (and doc tests) still pass with the change",
                "VERIF_REPO=<scratch> VERIF_WORK=<scratch work> ./check %s quick   -> exit %s, %s VIOLATION lines" % (prop, chk.get("rc"), chk.get("violations")),
            ],
            "detected_by_quick_check": bool(chk.get("rc") == 1 and chk.get("violations", 0) > 0),
            "first_violation_line": chk.get("first", ""),
            "first_violation_detail": chk.get("detail", ""),
        }
        json.dump(meta, open(os.path.join(dst, "meta.json"), "w"), indent=1)
        table.append((sid, prop, "detected" if meta["detected_by_quick_check"] else "MISSED", d))
    for sid, prop, st, d in table:
        print("%-8s %-4s %s" % (sid, prop, st))


main()
